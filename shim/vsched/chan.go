package vsched

import (
	"fmt"
	"reflect"
)

// Chan models one Go channel. The real channel object is never operated on while a scheduler is
// active; it only provides identity (its pointer) and capacity.
type Chan struct {
	key    uintptr
	cap    int
	buf    []interface{}
	bufVC  [][]uint32
	closed bool
	closeVC []uint32
	name   string
}

func (s *Sched) chanOf(ch interface{}) *Chan {
	v := reflect.ValueOf(ch)
	if v.IsNil() {
		return nil
	}
	k := v.Pointer()
	c, ok := s.chans[k]
	if !ok {
		c = &Chan{key: k, cap: v.Cap(), name: fmt.Sprintf("chan#%d(%s)", len(s.chans), v.Type().Elem().String())}
		s.chans[k] = c
	}
	return c
}

// parked partners
func (s *Sched) parkedRecv(c *Chan, except *Thread) []*Thread {
	var out []*Thread
	for _, t := range s.threads {
		if t == except || t.done || t.pending == nil || t.pending.completed {
			continue
		}
		op := t.pending
		if op.isRecv && op.ch == c {
			out = append(out, t)
			continue
		}
		for _, sc := range op.sel {
			if !sc.send && sc.ch == c {
				out = append(out, t)
				break
			}
		}
	}
	return out
}

func (s *Sched) parkedSend(c *Chan, except *Thread) []*Thread {
	var out []*Thread
	for _, t := range s.threads {
		if t == except || t.done || t.pending == nil || t.pending.completed {
			continue
		}
		op := t.pending
		if op.isSend && op.ch == c {
			out = append(out, t)
			continue
		}
		for _, sc := range op.sel {
			if sc.send && sc.ch == c {
				out = append(out, t)
				break
			}
		}
	}
	return out
}

func (s *Sched) canSend(c *Chan, me *Thread) bool {
	if c == nil {
		return false
	}
	if c.closed {
		return true // will panic
	}
	if len(c.buf) < c.cap {
		return true
	}
	if c.cap == 0 {
		return len(s.parkedRecv(c, me)) > 0
	}
	return false
}

func (s *Sched) canRecv(c *Chan, me *Thread) bool {
	if c == nil {
		return false
	}
	if len(c.buf) > 0 || c.closed {
		return true
	}
	return len(s.parkedSend(c, me)) > 0
}

// doSend performs a send by the current thread (known to be possible).
func (s *Sched) doSend(c *Chan, v interface{}) {
	me := s.cur
	if c.closed {
		panic("send on closed channel")
	}
	if c.cap == 0 || (len(c.buf) == 0 && len(s.parkedRecv(c, me)) > 0) {
		rs := s.parkedRecv(c, me)
		if len(rs) > 0 {
			r := rs[s.choose1(len(rs), "recv-partner")]
			op := r.pending
			op.completed, op.gotVal, op.gotOK = true, v, true
			if len(op.sel) > 0 {
				for i, sc := range op.sel {
					if !sc.send && sc.ch == c {
						op.gotIdx = i
						break
					}
				}
			}
			// rendezvous: happens-before both ways for unbuffered, send->recv for buffered
			r.vc = joinVC(r.vc, me.vc)
			if c.cap == 0 {
				me.vc = joinVC(me.vc, r.vc)
			}
			me.tickVC()
			r.vc = growVC(r.vc, r.ID+1)
			r.tickVC()
			return
		}
	}
	if len(c.buf) >= c.cap {
		panic("vsched: doSend on a channel that is not ready")
	}
	c.buf = append(c.buf, v)
	c.bufVC = append(c.bufVC, copyVC(me.vc))
	me.tickVC()
}

// doRecv performs a receive by the current thread (known to be possible).
func (s *Sched) doRecv(c *Chan) (interface{}, bool) {
	me := s.cur
	if len(c.buf) > 0 {
		v := c.buf[0]
		me.vc = joinVC(me.vc, c.bufVC[0])
		c.buf = c.buf[1:]
		c.bufVC = c.bufVC[1:]
		// a parked sender on a full buffered channel can now proceed by itself
		return v, true
	}
	ss := s.parkedSend(c, me)
	if len(ss) > 0 {
		p := ss[s.choose1(len(ss), "send-partner")]
		op := p.pending
		var v interface{}
		if op.isSend {
			v = op.sendVal
		} else {
			for i, sc := range op.sel {
				if sc.send && sc.ch == c {
					v = sc.val
					op.gotIdx = i
					break
				}
			}
		}
		op.completed = true
		me.vc = joinVC(me.vc, p.vc)
		p.vc = joinVC(p.vc, me.vc)
		me.tickVC()
		p.tickVC()
		return v, true
	}
	if c.closed {
		me.vc = joinVC(me.vc, c.closeVC)
		return nil, false
	}
	panic("vsched: doRecv on a channel that is not ready")
}

func (s *Sched) choose1(n int, what string) int {
	if n <= 1 {
		return 0
	}
	return s.choose(n, "choose "+what)
}

func zero[T any]() T {
	var z T
	return z
}

func Send[T any](ch chan<- T, v T) {
	s := S
	if s == nil {
		ch <- v
		return
	}
	if s.poison {
		panic(poison)
	}
	c := s.chanOf(ch)
	me := s.cur
	op := &Op{Kind: "send", ch: c, isSend: true, sendVal: v}
	op.Desc = "send on " + chName(c)
	op.Enabled = func() bool { return s.canSend(c, me) }
	s.point(op)
	if op.completed {
		return
	}
	s.doSend(c, v)
}

func chName(c *Chan) string {
	if c == nil {
		return "nil channel"
	}
	return c.name
}

func Recv2[T any](ch <-chan T) (T, bool) {
	s := S
	if s == nil {
		v, ok := <-ch
		return v, ok
	}
	if s.poison {
		panic(poison)
	}
	c := s.chanOf(ch)
	me := s.cur
	op := &Op{Kind: "recv", ch: c, isRecv: true}
	op.Desc = "recv on " + chName(c)
	op.Enabled = func() bool { return s.canRecv(c, me) }
	s.point(op)
	var v interface{}
	var ok bool
	if op.completed {
		v, ok = op.gotVal, op.gotOK
	} else {
		v, ok = s.doRecv(c)
	}
	if !ok || v == nil {
		return zero[T](), ok
	}
	return v.(T), ok
}

func Recv[T any](ch <-chan T) T {
	v, _ := Recv2(ch)
	return v
}

func Close[T any](ch chan<- T) {
	s := S
	if s == nil {
		close(ch)
		return
	}
	if s.poison {
		return
	}
	c := s.chanOf(ch)
	if c == nil {
		panic("close of nil channel")
	}
	s.point(&Op{Kind: "close", Desc: "close " + c.name, Enabled: func() bool { return true }})
	if c.closed {
		panic("close of closed channel")
	}
	c.closed = true
	c.closeVC = copyVC(s.cur.vc)
	s.cur.tickVC()
}

// Len reports the number of buffered elements (harness use).
func Len[T any](ch chan T) int {
	s := S
	if s == nil {
		return len(ch)
	}
	c := s.chanOf(ch)
	if c == nil {
		return 0
	}
	return len(c.buf)
}

// ---- select ----

type SelCase struct {
	ch   *Chan
	send bool
	val  interface{}
}

type SelResult struct {
	Index int
	val   interface{}
	ok    bool
}

func CaseRecv[T any](ch <-chan T) SelCase {
	if S == nil {
		return SelCase{val: ch}
	}
	return SelCase{ch: S.chanOf(ch)}
}

func CaseSend[T any](ch chan<- T, v T) SelCase {
	if S == nil {
		return SelCase{send: true, val: [2]interface{}{ch, v}}
	}
	return SelCase{ch: S.chanOf(ch), send: true, val: v}
}

// Select implements a select statement; Index = -1 means the default case.
func Select(hasDefault bool, cases ...SelCase) SelResult {
	s := S
	if s == nil {
		return realSelect(hasDefault, cases)
	}
	if s.poison {
		panic(poison)
	}
	me := s.cur
	ready := func() []int {
		var r []int
		for i, c := range cases {
			if c.send {
				if s.canSend(c.ch, me) {
					r = append(r, i)
				}
			} else if s.canRecv(c.ch, me) {
				r = append(r, i)
			}
		}
		return r
	}
	op := &Op{Kind: "select", Desc: "select", sel: cases, selDef: hasDefault}
	desc := "select{"
	for _, c := range cases {
		if c.send {
			desc += "send " + chName(c.ch) + ";"
		} else {
			desc += "recv " + chName(c.ch) + ";"
		}
	}
	op.Desc = desc + "}"
	op.Enabled = func() bool { return hasDefault || len(ready()) > 0 }
	s.point(op)
	if op.completed {
		return SelResult{Index: op.gotIdx, val: op.gotVal, ok: op.gotOK}
	}
	r := ready()
	if len(r) == 0 {
		return SelResult{Index: -1}
	}
	i := r[s.choose1(len(r), "select-case")]
	c := cases[i]
	if c.send {
		s.doSend(c.ch, c.val)
		return SelResult{Index: i}
	}
	v, ok := s.doRecv(c.ch)
	return SelResult{Index: i, val: v, ok: ok}
}

func SelRecv2[T any](ch <-chan T, r SelResult) (T, bool) {
	if r.val == nil {
		return zero[T](), r.ok
	}
	return r.val.(T), r.ok
}

func SelRecv[T any](ch <-chan T, r SelResult) T {
	v, _ := SelRecv2(ch, r)
	return v
}

func realSelect(hasDefault bool, cases []SelCase) SelResult {
	rc := make([]reflect.SelectCase, 0, len(cases)+1)
	for _, c := range cases {
		if c.send {
			p := c.val.([2]interface{})
			rc = append(rc, reflect.SelectCase{Dir: reflect.SelectSend, Chan: reflect.ValueOf(p[0]), Send: reflect.ValueOf(p[1])})
		} else {
			rc = append(rc, reflect.SelectCase{Dir: reflect.SelectRecv, Chan: reflect.ValueOf(c.val)})
		}
	}
	if hasDefault {
		rc = append(rc, reflect.SelectCase{Dir: reflect.SelectDefault})
	}
	i, v, ok := reflect.Select(rc)
	if hasDefault && i == len(cases) {
		return SelResult{Index: -1}
	}
	if cases[i].send {
		return SelResult{Index: i}
	}
	var iv interface{}
	if ok {
		iv = v.Interface()
	}
	return SelResult{Index: i, val: iv, ok: ok}
}
