package vsched

import (
	"fmt"
	"time"
)

// Virtual time. Only the harness moves the clock (Advance); a due timer or ticker then fires as its
// own scheduler-visible event, executed by a daemon service thread owned by that timer, so a firing can
// slide past any later operation of other threads. AfterFunc callbacks run in a fresh managed thread,
// as in the Go runtime.

type TimerModel struct {
	ID      int
	Armed   bool
	Target  time.Time
	F       func()
	C       chan time.Time // tickers and channel timers
	Period  time.Duration  // >0 for tickers
	armVC   []uint32
	Fired   int
	InFlight int // callbacks started and not finished
	Stopped bool
	thread  *Thread
}

func vnow() time.Time {
	if S == nil {
		return time.Now()
	}
	return S.Now
}

func VNow() time.Time { return vnow() }

// Advance moves the virtual clock (harness threads only). It is a visible operation.
func Advance(d time.Duration) {
	s := S
	if s == nil {
		return
	}
	s.point(&Op{Kind: "advance", Desc: fmt.Sprintf("advance clock %v", d), Enabled: func() bool { return true }})
	s.Now = s.Now.Add(d)
}

func (s *Sched) newTimer(d time.Duration, f func(), period time.Duration, withChan bool) *TimerModel {
	tm := &TimerModel{ID: s.nextTimerID, Armed: true, Target: s.Now.Add(d), F: f, Period: period}
	s.nextTimerID++
	if withChan {
		tm.C = make(chan time.Time, 1)
	}
	if s.cur != nil {
		tm.armVC = copyVC(s.cur.vc)
		s.cur.tickVC()
	}
	s.Timers = append(s.Timers, tm)
	kind := "timer"
	if period > 0 {
		kind = "ticker"
	}
	if s.seq {
		return tm
	}
	tm.thread = s.spawn(fmt.Sprintf("%s#%d", kind, tm.ID), func() {
		for {
			s.point(&Op{Kind: kind + "fire", Desc: fmt.Sprintf("%s#%d fire", kind, tm.ID), Enabled: func() bool {
				return tm.Armed && !tm.Target.After(s.Now)
			}})
			tm.Fired++
			s.cur.vc = joinVC(s.cur.vc, tm.armVC)
			if tm.Period > 0 {
				for !tm.Target.After(s.Now) {
					tm.Target = tm.Target.Add(tm.Period)
				}
			} else {
				tm.Armed = false
			}
			if tm.F != nil {
				tm.InFlight++
				f := tm.F
				s.spawn(fmt.Sprintf("timer#%d-callback", tm.ID), func() {
					defer func() { tm.InFlight-- }()
					f()
				}, false)
			} else {
				c := s.chanOf(tm.C)
				if len(c.buf) < c.cap && !c.closed {
					// non-blocking send; a receiver parked on the channel sees it as buffered data
					c.buf = append(c.buf, s.Now)
					c.bufVC = append(c.bufVC, copyVC(s.cur.vc))
				}
			}
		}
	}, true)
	return tm
}

// Stop/Reset follow the documented return values: true iff the timer was armed.
func (tm *TimerModel) Stop() bool {
	was := tm.Armed
	tm.Armed = false
	tm.Stopped = true
	return was
}

func (tm *TimerModel) Reset(d time.Duration) bool {
	s := S
	was := tm.Armed
	tm.Armed = true
	tm.Stopped = false
	tm.Target = s.Now.Add(d)
	if s.cur != nil {
		tm.armVC = copyVC(s.cur.vc)
		s.cur.tickVC()
	}
	return was
}

func NewTimerModel(d time.Duration, f func(), period time.Duration, withChan bool) *TimerModel {
	return S.newTimer(d, f, period, withChan)
}

// PendingTimers lists armed timers (harness / invariant use).
func PendingTimers() []*TimerModel {
	if S == nil {
		return nil
	}
	return S.Timers
}

// DueTimers reports whether any armed timer is due at the current virtual time.
func DueTimers() bool {
	s := S
	if s == nil {
		return false
	}
	for _, tm := range s.Timers {
		if tm.Armed && !tm.Target.After(s.Now) {
			return true
		}
	}
	return false
}
