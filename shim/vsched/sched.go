// Package vsched is engine E2: a controlled cooperative scheduler for the mechanically rewritten
// go-ipfix packages. Managed threads are real goroutines of which exactly one runs at a time; before
// every visible operation a thread parks and the scheduler (running in the caller of RunOnce) picks
// which enabled thread proceeds. All choices are recorded so that executions can be replayed and the
// choice tree enumerated (explore.go).
//
// When no scheduler is active (S == nil) every shim type passes straight through to the real
// sync / time / net implementation.
package vsched

import (
	"fmt"
	"runtime"
	"runtime/debug"
	"sort"
	"strings"
	"time"
)

// S is the active scheduler (nil = passthrough).
var S *Sched

type poisonT struct{}

var poison = poisonT{}

type Op struct {
	Kind    string
	Desc    string
	Obj     interface{}
	Enabled func() bool
	// channel rendezvous support
	ch        *Chan
	isRecv    bool
	isSend    bool
	sendVal   interface{}
	sel       []SelCase
	selDef    bool
	completed bool        // a partner already completed this op
	gotVal    interface{} // value handed over by partner
	gotOK     bool
	gotIdx    int // select: completed case index
}

type Thread struct {
	ID      int
	Name    string
	wake    chan struct{}
	pending *Op
	done    bool
	started bool
	Daemon  bool // timer/ticker service threads
	Eager   bool
	vc      []uint32
	ticks   int
	visible int // count of visible ops performed
}

type Point struct {
	N          int    // number of alternatives
	Kind       byte   // 's' schedule, 'c' choose
	CurEnabled bool   // for 's': alternative 0 continues the previously running thread
	Sig        string // signature for determinism checking
}

type Sched struct {
	threads []*Thread
	cur     *Thread // thread currently executing
	last    *Thread // thread that executed most recently
	yield   chan struct{}
	prefix  []int
	Choices []int
	Points  []Point
	poison  bool

	Now time.Time

	chans   map[uintptr]*Chan
	shadow  map[uintptr]*shadowCell
	objGen  uint64
	Crash   string
	Dead    string
	Fails   []Failure
	Races   []string
	raceSet map[string]bool
	Log     []string
	Steps   int
	NonDet  string
	MaxSteps int
	abort   bool
	mainDone bool
	Hook    func() // called by the scheduler before every scheduling decision (invariant checks)
	TrackRaces bool
	nextTimerID int
	Timers  []*TimerModel
	ext     interface{}
	acells  map[uintptr]*atomicCell
	seq     bool
	SeqSpawned []string
}

type Failure struct {
	Kind   string
	Detail string
}

var gen uint64

// Gen identifies the current execution; shim objects embedded in library structs reset their model
// state when they see a new generation.
func Gen() uint64 { return gen }

func (s *Sched) Cur() *Thread { return s.cur }

func newThread(s *Sched, name string) *Thread {
	t := &Thread{ID: len(s.threads), Name: name, wake: make(chan struct{})}
	s.threads = append(s.threads, t)
	return t
}

func (t *Thread) tickVC() {
	t.vc[t.ID]++
}

func growVC(vc []uint32, n int) []uint32 {
	for len(vc) < n {
		vc = append(vc, 0)
	}
	return vc
}

func joinVC(dst []uint32, src []uint32) []uint32 {
	dst = growVC(dst, len(src))
	for i, v := range src {
		if v > dst[i] {
			dst[i] = v
		}
	}
	return dst
}

func copyVC(src []uint32) []uint32 { return append([]uint32(nil), src...) }

// Go starts a managed thread (rewritten `go` statements land here).
func Go(name string, f func()) *Thread {
	s := S
	if s == nil {
		go f()
		return nil
	}
	if s.poison {
		return nil
	}
	return s.spawn(name, f, false)
}

func (s *Sched) spawn(name string, f func(), daemon bool) *Thread {
	if s.seq {
		// sequential mode: background goroutines never run (they would be parked on tickers that the
		// harness never advances); their names are recorded
		s.SeqSpawned = append(s.SeqSpawned, name)
		return nil
	}
	t := newThread(s, name)
	t.Daemon = daemon
	parent := s.cur
	if parent != nil {
		t.vc = copyVC(parent.vc)
		parent.tickVC()
	}
	t.vc = growVC(t.vc, t.ID+1)
	t.vc[t.ID] = 1
	t.pending = &Op{Kind: "start", Desc: "start " + name, Enabled: func() bool { return true }}
	go func() {
		<-t.wake
		defer func() {
			if r := recover(); r != nil {
				if _, ok := r.(poisonT); !ok && s.Crash == "" && !s.poison {
					s.Crash = fmt.Sprintf("panic in thread %d (%s): %v\n%s", t.ID, t.Name, r, trimStack(debug.Stack()))
				}
			}
			t.done = true
			t.pending = nil
			s.yield <- struct{}{}
		}()
		if s.poison {
			return
		}
		t.started = true
		t.pending = nil
		f()
	}()
	return t
}

func trimStack(b []byte) string {
	lines := strings.Split(string(b), "\n")
	var out []string
	for _, l := range lines {
		if strings.Contains(l, "verifshim/vsched") || strings.Contains(l, "runtime/debug") || strings.Contains(l, "runtime/panic") {
			continue
		}
		out = append(out, l)
		if len(out) > 24 {
			break
		}
	}
	return strings.Join(out, "\n")
}

// point parks the calling thread on op until the scheduler releases it.
func (s *Sched) point(op *Op) {
	t := s.cur
	if s.poison {
		panic(poison)
	}
	if s.seq {
		if !op.Enabled() {
			panic("sequential mode: operation would block forever: " + op.Desc)
		}
		return
	}
	t.pending = op
	t.ticks = 0
	s.yield <- struct{}{}
	<-t.wake
	if s.poison {
		panic(poison)
	}
	t.pending = nil
	t.visible++
}

// Yield is a visible no-op (used in harness polling loops).
func Yield() {
	if S == nil {
		runtime.Gosched()
		return
	}
	S.point(&Op{Kind: "yield", Desc: "yield", Enabled: func() bool { return true }})
}

// Tick is inserted at the top of every loop body by the rewriter: a thread that iterates 10^6 times
// without a visible operation is reported as non-terminating.
func Tick() {
	s := S
	if s == nil || s.poison || s.cur == nil {
		return
	}
	s.cur.ticks++
	if s.cur.ticks > 1_000_000 {
		s.cur.ticks = 0
		panic(fmt.Sprintf("livelock: thread %d (%s) ran 1000000 loop iterations without a visible operation", s.cur.ID, s.cur.Name))
	}
}

// Choose is an environment choice point with n alternatives (cost 0).
func Choose(n int, what string) int {
	s := S
	if s == nil || n <= 1 {
		return 0
	}
	if s.poison {
		panic(poison)
	}
	return s.choose(n, "choose "+what)
}

func (s *Sched) choose(n int, sig string) int {
	i := len(s.Choices)
	c := 0
	if i < len(s.prefix) {
		c = s.prefix[i]
		if c >= n {
			s.NonDet = fmt.Sprintf("replay: choice %d at point %d out of range (n=%d, %s)", c, i, n, sig)
			c = 0
		}
	}
	s.Choices = append(s.Choices, c)
	s.Points = append(s.Points, Point{N: n, Kind: 'c', Sig: sig})
	return c
}

// Fail records an oracle failure from harness code.
func Fail(kind, format string, a ...interface{}) {
	if S == nil {
		return
	}
	if len(S.Fails) < 10 {
		S.Fails = append(S.Fails, Failure{kind, fmt.Sprintf(format, a...)})
	}
}

// Logf appends to the observation log of this execution.
func Logf(format string, a ...interface{}) {
	if S == nil {
		return
	}
	S.Log = append(S.Log, fmt.Sprintf(format, a...))
}

func (s *Sched) enabledThreads() []*Thread {
	var en []*Thread
	for _, t := range s.threads {
		if t.done || t.pending == nil {
			continue
		}
		if t.pending.completed || t.pending.Enabled() {
			en = append(en, t)
		}
	}
	return en
}

// Blocked describes parked, not enabled, non-daemon threads.
func (s *Sched) Blocked() []string {
	var out []string
	for _, t := range s.threads {
		if t.done || t.pending == nil || t.Daemon {
			continue
		}
		if !(t.pending.completed || t.pending.Enabled()) {
			out = append(out, fmt.Sprintf("thread %d (%s) blocked on %s", t.ID, t.Name, t.pending.Desc))
		}
	}
	return out
}

// Live lists non-daemon threads other than the caller that have not finished.
func Live() []string {
	s := S
	if s == nil {
		return nil
	}
	var out []string
	for _, t := range s.threads {
		if t.done || t.Daemon || t == s.cur {
			continue
		}
		d := "running"
		if t.pending != nil {
			d = t.pending.Desc
		}
		out = append(out, fmt.Sprintf("thread %d (%s) at %s", t.ID, t.Name, d))
	}
	return out
}

// Outcome of one execution.
type Outcome struct {
	Choices []int
	Points  []Point
	Crash   string
	Dead    string
	NonDet  string
	Fails   []Failure
	Races   []string
	Log     []string
	Steps   int
	Threads int
}

// RunOnce executes main as thread 0 under a fresh scheduler, replaying prefix and then taking
// default choices. It returns when main has returned (or the execution deadlocked / crashed).
func RunOnce(prefix []int, trackRaces bool, now time.Time, main func()) *Outcome {
	gen++
	s := &Sched{yield: make(chan struct{}), prefix: prefix, chans: map[uintptr]*Chan{}, shadow: map[uintptr]*shadowCell{},
		raceSet: map[string]bool{}, Now: now, MaxSteps: 2_000_000, TrackRaces: trackRaces}
	S = s
	t0 := s.spawn("main", func() {
		main()
		s.mainDone = true
	}, false)
	_ = t0
	s.loop()
	// unwind everything that is left
	s.poison = true
	for _, t := range s.threads {
		if !t.done {
			s.cur = t
			t.wake <- struct{}{}
			<-s.yield
		}
	}
	S = nil
	o := &Outcome{Choices: s.Choices, Points: s.Points, Crash: s.Crash, Dead: s.Dead, NonDet: s.NonDet, Fails: s.Fails, Races: s.Races, Log: s.Log, Steps: s.Steps, Threads: len(s.threads)}
	return o
}

func (s *Sched) loop() {
	for {
		if s.mainDone || s.Crash != "" || s.NonDet != "" {
			return
		}
		if s.Hook != nil {
			s.cur = nil
			s.Hook()
		}
		en := s.enabledThreads()
		if len(en) == 0 {
			s.Dead = "deadlock: no enabled thread while main is unfinished: " + strings.Join(s.Blocked(), "; ")
			return
		}
		s.Steps++
		if s.Steps > s.MaxSteps {
			s.Crash = fmt.Sprintf("step budget %d exceeded (non-termination?)", s.MaxSteps)
			return
		}
		var pick *Thread
		// eager threads run as soon as they are enabled and never create alternatives
		for _, t := range en {
			if t.Eager {
				pick = t
				break
			}
		}
		if pick == nil {
			// canonical order: previously running thread first (if enabled), then ascending ids
			curEnabled := false
			if s.last != nil {
				for i, t := range en {
					if t == s.last {
						curEnabled = true
						copy(en[1:i+1], en[0:i])
						en[0] = t
						break
					}
				}
			}
			c := 0
			if len(en) > 1 {
				i := len(s.Choices)
				if i < len(s.prefix) {
					c = s.prefix[i]
				}
				var sb strings.Builder
				for _, t := range en {
					fmt.Fprintf(&sb, "%d:%s|", t.ID, t.pending.Kind)
				}
				sig := sb.String()
				if c >= len(en) {
					s.NonDet = fmt.Sprintf("replay: choice %d at point %d out of range (%d enabled: %s)", c, i, len(en), sig)
					return
				}
				s.Choices = append(s.Choices, c)
				s.Points = append(s.Points, Point{N: len(en), Kind: 's', CurEnabled: curEnabled, Sig: sig})
			}
			pick = en[c]
		}
		s.cur = pick
		s.last = pick
		pick.wake <- struct{}{}
		<-s.yield
	}
}

// SetEager marks the calling thread as an eager daemon-like consumer.
func SetEager() {
	if S != nil && S.cur != nil {
		S.cur.Eager = true
	}
}

// Join parks the caller until all given threads have finished.
func Join(ts ...*Thread) {
	s := S
	if s == nil {
		return
	}
	s.point(&Op{Kind: "join", Desc: "join", Enabled: func() bool {
		for _, t := range ts {
			if t != nil && !t.done {
				return false
			}
		}
		return true
	}})
	for _, t := range ts {
		if t != nil {
			s.cur.vc = joinVC(s.cur.vc, t.vc)
		}
	}
}

// WaitUntil parks the caller until cond holds (cond must only read scheduler-owned or quiescent state).
func WaitUntil(desc string, cond func() bool) {
	s := S
	if s == nil {
		for !cond() {
			time.Sleep(time.Millisecond)
		}
		return
	}
	s.point(&Op{Kind: "wait", Desc: "wait " + desc, Enabled: cond})
}

// Quiesce parks the caller until no other non-daemon thread is enabled (all blocked or finished).
func Quiesce() {
	s := S
	if s == nil {
		return
	}
	me := s.cur
	s.point(&Op{Kind: "quiesce", Desc: "quiesce", Enabled: func() bool {
		for _, t := range s.threads {
			if t == me || t.done || t.pending == nil || t.pending.Kind == "quiesce" {
				continue
			}
			if t.pending.completed || t.pending.Enabled() {
				return false
			}
		}
		return true
	}})
	// observing quiescence is a harness-level barrier: what the other threads did happens-before what
	// the caller does next (otherwise the harness's own end-state inspection would look like a race)
	for _, t := range s.threads {
		if t != me {
			me.vc = joinVC(me.vc, t.vc)
		}
	}
}

// ---- sorted map keys (rewritten map ranges) ----

func MapKeys[K comparable, V any](m map[K]V) []K {
	keys := make([]K, 0, len(m))
	for k := range m {
		keys = append(keys, k)
	}
	if len(keys) > 1 {
		ss := make([]string, len(keys))
		idx := make([]int, len(keys))
		for i, k := range keys {
			ss[i] = fmt.Sprintf("%v", k)
			idx[i] = i
		}
		sort.Slice(idx, func(a, b int) bool { return ss[idx[a]] < ss[idx[b]] })
		out := make([]K, len(keys))
		for i, j := range idx {
			out[i] = keys[j]
		}
		keys = out
	}
	return keys
}

// VisibleOp parks the calling thread on a custom visible operation (used by vnet).
func VisibleOp(kind, desc string, enabled func() bool) {
	s := S
	if s == nil {
		return
	}
	if s.poison {
		panic(poison)
	}
	s.point(&Op{Kind: kind, Desc: desc, Enabled: enabled})
}

// Poisoned reports whether the execution is being unwound (shim operations must be no-ops).
func Poisoned() bool { return S != nil && S.poison }

// CurID returns the id of the running managed thread (-1 outside).
func CurID() int {
	if S == nil || S.cur == nil {
		return -1
	}
	return S.cur.ID
}

// Ext is a slot for extension state owned by other shim packages (vnet).
func Ext() *interface{} {
	if S == nil {
		return nil
	}
	return &S.ext
}

// HBRelease / HBAcquire let other shim packages add happens-before edges through an object clock.
type Clock struct{ vc []uint32 }

func (c *Clock) Release() {
	if S == nil || S.cur == nil || S.poison {
		return
	}
	c.vc = joinVC(c.vc, S.cur.vc)
	S.cur.tickVC()
}

func (c *Clock) Acquire() {
	if S == nil || S.cur == nil || S.poison {
		return
	}
	S.cur.vc = joinVC(S.cur.vc, c.vc)
}

// BeginSeq activates the shim in sequential mode: one implicit thread (the caller), virtual clock,
// in-memory network; background goroutines started by the library are recorded but never run; due
// timers fire only through FireDue. Used by the E1 checks that need virtual time or the fake network
// but no interleaving. EndSeq deactivates it.
func BeginSeq(now time.Time) *Sched {
	gen++
	s := &Sched{prefix: nil, chans: map[uintptr]*Chan{}, shadow: map[uintptr]*shadowCell{}, raceSet: map[string]bool{}, Now: now, seq: true}
	t := &Thread{ID: 0, Name: "seq", vc: []uint32{1}}
	s.threads = []*Thread{t}
	s.cur = t
	S = s
	return s
}

func EndSeq() { S = nil }

// SeqAdvance moves the virtual clock in sequential mode.
func SeqAdvance(d time.Duration) {
	S.Now = S.Now.Add(d)
}

// FireDue runs, inline and in deadline order, every armed timer that is due (sequential mode).
func FireDue() int {
	s := S
	n := 0
	for {
		var best *TimerModel
		for _, tm := range s.Timers {
			if tm.Armed && !tm.Target.After(s.Now) && (best == nil || tm.Target.Before(best.Target)) {
				best = tm
			}
		}
		if best == nil {
			return n
		}
		n++
		best.Fired++
		if best.Period > 0 {
			for !best.Target.After(s.Now) {
				best.Target = best.Target.Add(best.Period)
			}
		} else {
			best.Armed = false
		}
		if best.F != nil {
			best.F()
		} else {
			c := s.chanOf(best.C)
			if len(c.buf) < c.cap {
				c.buf = append(c.buf, s.Now)
				c.bufVC = append(c.bufVC, nil)
			}
		}
	}
}

// StepNo is the number of scheduling decisions taken so far in this execution (a logical clock for
// invoke/response stamps).
func StepNo() int {
	if S == nil {
		return 0
	}
	return S.Steps
}

// SetDaemon marks the calling thread as a harness service thread (ignored by Live / deadlock reports).
func SetDaemon() {
	if S != nil && S.cur != nil {
		S.cur.Daemon = true
	}
}
