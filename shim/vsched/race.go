package vsched

import (
	"reflect"
	"fmt"
	"unsafe"
)

// FastTrack-style happens-before race detection over the accesses the rewriter instruments with
// R / W. Clocks are joined on exactly the edges the shim models (unlock->lock, send->recv, close->recv,
// Done->Wait, go->start, atomic op->later atomic op on the same cell, timer arm->callback start).

type shadowCell struct {
	wTid   int
	wClk   uint32
	wWhere string
	reads  map[int]uint32
	rWhere map[int]string
}

func (s *Sched) access(addr uintptr, write bool, where string) {
	t := s.cur
	if t == nil || !s.TrackRaces || s.poison {
		return
	}
	c := s.shadow[addr]
	if c == nil {
		c = &shadowCell{wTid: -1}
		s.shadow[addr] = c
	}
	hb := func(tid int, clk uint32) bool {
		if tid == t.ID {
			return true
		}
		return tid < len(t.vc) && clk <= t.vc[tid]
	}
	if c.wTid >= 0 && !hb(c.wTid, c.wClk) {
		s.race(where, write, c.wWhere, true, t.ID, c.wTid)
	}
	if write {
		for tid, clk := range c.reads {
			if !hb(tid, clk) {
				s.race(where, true, c.rWhere[tid], false, t.ID, tid)
			}
		}
		c.wTid, c.wClk, c.wWhere = t.ID, t.vc[t.ID], where
		c.reads, c.rWhere = nil, nil
	} else {
		if c.reads == nil {
			c.reads = map[int]uint32{}
			c.rWhere = map[int]string{}
		}
		c.reads[t.ID] = t.vc[t.ID]
		c.rWhere[t.ID] = where
	}
}

func (s *Sched) race(where string, write bool, other string, otherWrite bool, t1, t2 int) {
	k := func(w bool) string {
		if w {
			return "write"
		}
		return "read"
	}
	a, b := k(write)+" at "+where, k(otherWrite)+" at "+other
	if a > b {
		a, b = b, a
	}
	key := a + " || " + b
	if s.raceSet[key] {
		return
	}
	s.raceSet[key] = true
	s.Races = append(s.Races, fmt.Sprintf("data race: %s (thread %d %s) unordered with %s (thread %d %s)",
		a, t1, s.threads[t1].Name, b, t2, s.threads[t2].Name))
}

// R marks a read of *p; W a write. Both return p so the rewritten expression stays addressable.
func R[T any](p *T, where string) *T {
	if s := S; s != nil {
		s.access(uintptr(unsafe.Pointer(p)), false, where)
	}
	return p
}

func W[T any](p *T, where string) *T {
	if s := S; s != nil {
		s.access(uintptr(unsafe.Pointer(p)), true, where)
	}
	return p
}

// Appended marks the elements that an append added (those beyond len(old)) as written.
func Appended[T any](where string, old []T, r []T) []T {
	if sc := S; sc != nil && sc.TrackRaces {
		for i := len(old); i < len(r); i++ {
			sc.access(uintptr(unsafe.Pointer(&r[i])), true, where)
		}
	}
	return r
}

// MapR / MapW: a Go map is one location for the race detector (any write conflicts with any other access,
// as in the runtime's own "concurrent map" checks). They return the map so that m[k] can be rewritten as
// MapR(m, where)[k] and m[k] = v as MapW(m, where)[k] = v.
func MapR[M ~map[K]V, K comparable, V any](m M, where string) M {
	if s := S; s != nil && m != nil {
		s.access(reflect.ValueOf(m).Pointer(), false, where)
	}
	return m
}

func MapW[M ~map[K]V, K comparable, V any](m M, where string) M {
	if s := S; s != nil && m != nil {
		s.access(reflect.ValueOf(m).Pointer(), true, where)
	}
	return m
}
