package vsched

import (
	"fmt"
	"hash/fnv"
	"runtime"
	"runtime/debug"
	"strings"
	"time"
)

// Explorer enumerates the choice tree of a scenario depth-first with iterative preemption bounding
// (CHESS): an alternative at a scheduling point costs one preemption when the previously running
// thread was still enabled; environment choices and switches at blocking points are free.

type Problem struct {
	Kind   string
	Detail string
}

type Scenario struct {
	Name       string
	Main       func()               // run as thread 0 under the scheduler
	Check      func(o *Outcome) *Problem // end-of-execution oracle on the outcome (may be nil)
	TrackRaces bool
	Start      time.Time
}

type ExploreConfig struct {
	Bound     int // max preemptions (or delays); <0 = unbounded
	// Delay selects delay bounding (Emmi, Qadeer, Rakamaric 2011): EVERY departure from the deterministic
	// default scheduler costs one unit - also a switch at a blocking point to a thread other than the
	// default one, and a non-default environment choice. The space with <= k delays is polynomial in the
	// number of scheduling points, which keeps scenarios with ~10 threads enumerable.
	Delay bool
	MaxExecs  int64
	Deadline  time.Time
	Shard     int // this process explores subtrees with index%NShards == Shard
	NShards   int
	SplitDepth int // number of frontier nodes to generate before sharding (0 = no sharding)
}

type Counter struct {
	Execs       int64
	Points      int64
	Steps       int64
	MaxDepth    int
	Outcomes    map[uint64]int64
	Problems    []Found
	Capped      string
	BoundDone   int
	SampleTrace []string
}

type Found struct {
	Problem Problem
	Choices []int
	Log     []string
}

func (c *Counter) add(o *Outcome) {
	c.Execs++
	c.Points += int64(len(o.Points))
	c.Steps += int64(o.Steps)
	if len(o.Points) > c.MaxDepth {
		c.MaxDepth = len(o.Points)
	}
	h := fnv.New64a()
	for _, l := range o.Log {
		h.Write([]byte(l))
		h.Write([]byte{0})
	}
	c.Outcomes[h.Sum64()]++
}

// Judge turns an outcome into a problem (nil = fine).
func (sc *Scenario) Judge(o *Outcome) *Problem {
	if o.NonDet != "" {
		return &Problem{"NONDETERMINISM", o.NonDet}
	}
	if o.Crash != "" {
		return &Problem{"crash", o.Crash}
	}
	if o.Dead != "" {
		return &Problem{"deadlock", o.Dead}
	}
	if len(o.Fails) > 0 {
		return &Problem{o.Fails[0].Kind, o.Fails[0].Detail}
	}
	if len(o.Races) > 0 {
		return &Problem{"data-race", strings.Join(o.Races, "\n")}
	}
	if sc.Check != nil {
		return sc.Check(o)
	}
	return nil
}

func (sc *Scenario) Run(prefix []int) *Outcome {
	start := sc.Start
	if start.IsZero() {
		start = time.Unix(1_700_000_000, 0)
	}
	return RunOnce(prefix, sc.TrackRaces, start, sc.Main)
}

type node struct {
	prefix []int
	cost   int
}

// Explore runs the bounded DFS. It stops at the first MaxProblems problems.
func Explore(sc *Scenario, cfg ExploreConfig) *Counter {
	c := &Counter{Outcomes: map[uint64]int64{}}
	old := debug.SetGCPercent(-1) // no address reuse within an execution (shadow memory, channel identity)
	defer debug.SetGCPercent(old)
	sinceGC := 0
	run := func(prefix []int) *Outcome {
		o := sc.Run(prefix)
		sinceGC++
		if sinceGC >= 2000 {
			runtime.GC()
			sinceGC = 0
		}
		// replayed prefix must reproduce the recorded choices
		for i := range prefix {
			if i >= len(o.Choices) {
				o.NonDet = fmt.Sprintf("replay of %d-choice prefix produced only %d points", len(prefix), len(o.Choices))
				break
			}
		}
		return o
	}
	// children of an executed node within the bound
	expand := func(o *Outcome, from int, baseCost int) []node {
		var out []node
		cost := baseCost
		// cost of the prefix choices beyond `from` is zero (defaults), so cost stays baseCost
		for i := from; i < len(o.Points); i++ {
			p := o.Points[i]
			for alt := 1; alt < p.N; alt++ {
				ac := cost
				if cfg.Delay || (p.Kind == 's' && p.CurEnabled) {
					ac++
				}
				if cfg.Bound >= 0 && ac > cfg.Bound {
					continue
				}
				np := make([]int, i+1)
				copy(np, o.Choices[:i])
				np[i] = alt
				out = append(out, node{np, ac})
			}
		}
		return out
	}
	problem := func(o *Outcome) bool {
		if p := sc.Judge(o); p != nil {
			c.Problems = append(c.Problems, Found{*p, append([]int{}, o.Choices...), o.Log})
			return len(c.Problems) >= 5
		}
		return false
	}
	capped := func() bool {
		if cfg.MaxExecs > 0 && c.Execs >= cfg.MaxExecs {
			c.Capped = fmt.Sprintf("execution cap %d", cfg.MaxExecs)
			return true
		}
		if !cfg.Deadline.IsZero() && c.Execs%64 == 0 && time.Now().After(cfg.Deadline) {
			c.Capped = "deadline"
			return true
		}
		return false
	}

	// root
	root := run(nil)
	var stack []node
	if cfg.NShards > 1 {
		// breadth-first expansion of a frontier, then keep only this shard's subtrees. Nodes executed
		// while building the frontier are counted by shard 0 only.
		type fn struct {
			n node
			o *Outcome
		}
		front := []node{}
		if cfg.Shard == 0 {
			c.add(root)
			if len(root.Points) > 0 {
				c.SampleTrace = describe(root)
			}
			if problem(root) {
				return c
			}
		}
		front = expand(root, 0, 0)
		for len(front) > 0 && len(front) < cfg.SplitDepth {
			// expand the first node of the frontier (deterministic in every shard)
			n := front[0]
			front = front[1:]
			o := run(n.prefix)
			if cfg.Shard == 0 {
				c.add(o)
				if problem(o) {
					return c
				}
			}
			front = append(front, expand(o, len(n.prefix), n.cost)...)
		}
		for i, n := range front {
			if i%cfg.NShards == cfg.Shard {
				stack = append(stack, n)
			}
		}
	} else {
		c.add(root)
		c.SampleTrace = describe(root)
		if problem(root) {
			return c
		}
		stack = expand(root, 0, 0)
	}
	for len(stack) > 0 {
		if capped() {
			return c
		}
		n := stack[len(stack)-1]
		stack = stack[:len(stack)-1]
		o := run(n.prefix)
		c.add(o)
		if problem(o) {
			return c
		}
		stack = append(stack, expand(o, len(n.prefix), n.cost)...)
	}
	c.BoundDone = cfg.Bound
	return c
}

func describe(o *Outcome) []string {
	var out []string
	for i, p := range o.Points {
		if i >= 40 {
			out = append(out, "...")
			break
		}
		out = append(out, fmt.Sprintf("%c n=%d choice=%d %s", p.Kind, p.N, o.Choices[i], p.Sig))
	}
	return out
}

// Describe renders an outcome's points for humans.
func Describe(o *Outcome) []string { return describe(o) }
