package vsched

import (
	"fmt"
	"sync"
)

// The shim sync types live here (vsync re-exports them by alias) so that they can reach the
// scheduler's internals.

type Mutex struct {
	real  sync.Mutex
	gen   uint64
	owner int // thread id + 1
	relVC []uint32
}

func (m *Mutex) reset() {
	if m.gen != gen {
		m.gen, m.owner, m.relVC = gen, 0, nil
	}
}

func (m *Mutex) Lock() {
	s := S
	if s == nil {
		m.real.Lock()
		return
	}
	if s.poison {
		panic(poison)
	}
	m.reset()
	s.point(&Op{Kind: "lock", Desc: fmt.Sprintf("Mutex.Lock %p", m), Obj: m, Enabled: func() bool { m.reset(); return m.owner == 0 }})
	m.owner = s.cur.ID + 1
	s.cur.vc = joinVC(s.cur.vc, m.relVC)
	s.held()
}

// TryLockUsed is set (by generated code) when the code under test calls TryLock / TryRLock somewhere. A
// critical section without a blocking operation inside runs from Lock to Unlock without a scheduling point,
// which is sound for blocking acquisitions (nobody can tell the difference) but hides the held lock from a
// non-blocking attempt; with TryLockUsed every acquisition is followed by one more scheduling point.
var TryLockUsed bool

func (s *Sched) held() {
	if TryLockUsed && !s.seq {
		s.point(&Op{Kind: "held", Desc: "lock held", Enabled: func() bool { return true }})
	}
}

func (m *Mutex) TryLock() bool {
	s := S
	if s == nil {
		return m.real.TryLock()
	}
	m.reset()
	s.point(&Op{Kind: "trylock", Desc: "Mutex.TryLock", Enabled: func() bool { return true }})
	if m.owner != 0 {
		return false
	}
	m.owner = s.cur.ID + 1
	s.cur.vc = joinVC(s.cur.vc, m.relVC)
	return true
}

func (m *Mutex) Unlock() {
	s := S
	if s == nil {
		m.real.Unlock()
		return
	}
	if s.poison {
		return
	}
	m.reset()
	if m.owner == 0 {
		panic("sync: unlock of unlocked mutex")
	}
	m.owner = 0
	m.relVC = copyVC(s.cur.vc)
	s.cur.tickVC()
}

// Held reports whether the mutex is currently owned (scheduler hook use).
func (m *Mutex) Held() bool { m.reset(); return m.owner != 0 }

type RWMutex struct {
	real      sync.RWMutex
	gen       uint64
	owner     int
	readers   int
	announced bool
	relVC     []uint32 // last Unlock
	rrelVC    []uint32 // join of all RUnlocks
}

func (m *RWMutex) reset() {
	if m.gen != gen {
		*m = RWMutex{gen: gen}
	}
}

func (m *RWMutex) Lock() {
	s := S
	if s == nil {
		m.real.Lock()
		return
	}
	if s.poison {
		panic(poison)
	}
	m.reset()
	s.point(&Op{Kind: "lock", Desc: fmt.Sprintf("RWMutex.Lock %p", m), Obj: m, Enabled: func() bool { m.reset(); return m.owner == 0 && !m.announced }})
	if m.readers > 0 {
		// Go semantics: the writer announces itself (new readers now wait) and waits for the
		// current readers to drain.
		m.announced = true
		s.point(&Op{Kind: "lock2", Desc: fmt.Sprintf("RWMutex.Lock(wait readers) %p", m), Obj: m, Enabled: func() bool { return m.readers == 0 }})
		m.announced = false
	}
	m.owner = s.cur.ID + 1
	s.cur.vc = joinVC(joinVC(s.cur.vc, m.relVC), m.rrelVC)
	s.held()
}

func (m *RWMutex) Unlock() {
	s := S
	if s == nil {
		m.real.Unlock()
		return
	}
	if s.poison {
		return
	}
	m.reset()
	if m.owner == 0 {
		panic("sync: Unlock of unlocked RWMutex")
	}
	m.owner = 0
	m.relVC = copyVC(s.cur.vc)
	s.cur.tickVC()
}

func (m *RWMutex) RLock() {
	s := S
	if s == nil {
		m.real.RLock()
		return
	}
	if s.poison {
		panic(poison)
	}
	m.reset()
	s.point(&Op{Kind: "rlock", Desc: fmt.Sprintf("RWMutex.RLock %p", m), Obj: m, Enabled: func() bool { m.reset(); return m.owner == 0 && !m.announced }})
	m.readers++
	s.cur.vc = joinVC(s.cur.vc, m.relVC)
	s.held()
}

func (m *RWMutex) RUnlock() {
	s := S
	if s == nil {
		m.real.RUnlock()
		return
	}
	if s.poison {
		return
	}
	m.reset()
	if m.readers == 0 {
		panic("sync: RUnlock of unlocked RWMutex")
	}
	m.readers--
	m.rrelVC = joinVC(m.rrelVC, s.cur.vc)
	s.cur.tickVC()
}

// TryLock / TryRLock: non-blocking attempts (a visible operation each; they never wait).
func (m *RWMutex) TryLock() bool {
	s := S
	if s == nil {
		return m.real.TryLock()
	}
	m.reset()
	s.point(&Op{Kind: "trylock", Desc: "RWMutex.TryLock", Enabled: func() bool { return true }})
	if m.owner != 0 || m.readers > 0 || m.announced {
		return false
	}
	m.owner = s.cur.ID + 1
	s.cur.vc = joinVC(joinVC(s.cur.vc, m.relVC), m.rrelVC)
	return true
}

func (m *RWMutex) TryRLock() bool {
	s := S
	if s == nil {
		return m.real.TryRLock()
	}
	m.reset()
	s.point(&Op{Kind: "trylock", Desc: "RWMutex.TryRLock", Enabled: func() bool { return true }})
	if m.owner != 0 || m.announced {
		return false
	}
	m.readers++
	s.cur.vc = joinVC(s.cur.vc, m.relVC)
	return true
}

// Free reports whether nobody holds the lock in any mode (scheduler hook use).
func (m *RWMutex) Free() bool { m.reset(); return m.owner == 0 && m.readers == 0 }

type WaitGroup struct {
	real    sync.WaitGroup
	gen     uint64
	n       int
	doneVC  []uint32
	waiters int
}

func (w *WaitGroup) reset() {
	if w.gen != gen {
		*w = WaitGroup{gen: gen}
	}
}

func (w *WaitGroup) Add(d int) {
	s := S
	if s == nil {
		w.real.Add(d)
		return
	}
	if s.poison {
		return
	}
	w.reset()
	if d > 0 && w.n == 0 && w.waiters > 0 {
		panic("sync: WaitGroup misuse: Add called concurrently with Wait")
	}
	w.n += d
	if w.n < 0 {
		panic("sync: negative WaitGroup counter")
	}
	if d < 0 {
		w.doneVC = joinVC(w.doneVC, s.cur.vc)
		s.cur.tickVC()
	}
}

func (w *WaitGroup) Done() { w.Add(-1) }

func (w *WaitGroup) Wait() {
	s := S
	if s == nil {
		w.real.Wait()
		return
	}
	if s.poison {
		panic(poison)
	}
	w.reset()
	w.waiters++
	s.point(&Op{Kind: "wgwait", Desc: fmt.Sprintf("WaitGroup.Wait %p (counter %d)", w, w.n), Obj: w, Enabled: func() bool { return w.n == 0 }})
	w.waiters--
	s.cur.vc = joinVC(s.cur.vc, w.doneVC)
}

// Count returns the modelled counter (harness use).
func (w *WaitGroup) Count() int { w.reset(); return w.n }

type Once struct {
	real sync.Once
	gen  uint64
	done bool
	m    Mutex
}

func (o *Once) Do(f func()) {
	if S == nil {
		o.real.Do(f)
		return
	}
	if o.gen != gen {
		o.gen, o.done = gen, false
	}
	o.m.Lock()
	defer o.m.Unlock()
	if !o.done {
		defer func() { o.done = true }()
		f()
	}
}

// ---- atomics ----

type atomicCell struct {
	gen uint64
	vc  []uint32
}

func (c *atomicCell) op(desc string) {
	s := S
	if s.poison {
		return
	}
	if c.gen != gen {
		c.gen, c.vc = gen, nil
	}
	s.point(&Op{Kind: "atomic", Desc: desc, Enabled: func() bool { return true }})
	s.cur.vc = joinVC(s.cur.vc, c.vc)
	c.vc = copyVC(s.cur.vc)
	s.cur.tickVC()
}

type Bool struct {
	cell atomicCell
	v    bool
	mu   sync.Mutex
}

func (b *Bool) Load() bool {
	if S == nil {
		b.mu.Lock()
		defer b.mu.Unlock()
		return b.v
	}
	b.cell.op("atomic.Bool.Load")
	return b.v
}
func (b *Bool) Store(v bool) {
	if S == nil {
		b.mu.Lock()
		defer b.mu.Unlock()
		b.v = v
		return
	}
	b.cell.op("atomic.Bool.Store")
	b.v = v
}
func (b *Bool) Swap(v bool) bool {
	if S == nil {
		b.mu.Lock()
		defer b.mu.Unlock()
		o := b.v
		b.v = v
		return o
	}
	b.cell.op("atomic.Bool.Swap")
	o := b.v
	b.v = v
	return o
}
func (b *Bool) CompareAndSwap(old, new bool) bool {
	if S == nil {
		b.mu.Lock()
		defer b.mu.Unlock()
		if b.v == old {
			b.v = new
			return true
		}
		return false
	}
	b.cell.op("atomic.Bool.CompareAndSwap")
	if b.v == old {
		b.v = new
		return true
	}
	return false
}

type Int64 struct {
	cell atomicCell
	v    int64
	mu   sync.Mutex
}

func (b *Int64) pre(d string) func() {
	if S == nil {
		b.mu.Lock()
		return b.mu.Unlock
	}
	b.cell.op(d)
	return func() {}
}
func (b *Int64) Load() int64          { defer b.pre("atomic.Int64.Load")(); return b.v }
func (b *Int64) Store(v int64)        { defer b.pre("atomic.Int64.Store")(); b.v = v }
func (b *Int64) Add(d int64) int64    { defer b.pre("atomic.Int64.Add")(); b.v += d; return b.v }
func (b *Int64) Swap(v int64) int64   { defer b.pre("atomic.Int64.Swap")(); o := b.v; b.v = v; return o }
func (b *Int64) CompareAndSwap(o, n int64) bool {
	defer b.pre("atomic.Int64.CompareAndSwap")()
	if b.v == o {
		b.v = n
		return true
	}
	return false
}

type Uint64 struct {
	cell atomicCell
	v    uint64
	mu   sync.Mutex
}

func (b *Uint64) pre(d string) func() {
	if S == nil {
		b.mu.Lock()
		return b.mu.Unlock
	}
	b.cell.op(d)
	return func() {}
}
func (b *Uint64) Load() uint64         { defer b.pre("atomic.Uint64.Load")(); return b.v }
func (b *Uint64) Store(v uint64)       { defer b.pre("atomic.Uint64.Store")(); b.v = v }
func (b *Uint64) Add(d uint64) uint64  { defer b.pre("atomic.Uint64.Add")(); b.v += d; return b.v }
func (b *Uint64) Swap(v uint64) uint64 { defer b.pre("atomic.Uint64.Swap")(); o := b.v; b.v = v; return o }
func (b *Uint64) CompareAndSwap(o, n uint64) bool {
	defer b.pre("atomic.Uint64.CompareAndSwap")()
	if b.v == o {
		b.v = n
		return true
	}
	return false
}

type Int32 struct {
	cell atomicCell
	v    int32
	mu   sync.Mutex
}

func (b *Int32) pre(d string) func() {
	if S == nil {
		b.mu.Lock()
		return b.mu.Unlock
	}
	b.cell.op(d)
	return func() {}
}
func (b *Int32) Load() int32         { defer b.pre("atomic.Int32.Load")(); return b.v }
func (b *Int32) Store(v int32)       { defer b.pre("atomic.Int32.Store")(); b.v = v }
func (b *Int32) Add(d int32) int32   { defer b.pre("atomic.Int32.Add")(); b.v += d; return b.v }
func (b *Int32) Swap(v int32) int32  { defer b.pre("atomic.Int32.Swap")(); o := b.v; b.v = v; return o }
func (b *Int32) CompareAndSwap(o, n int32) bool {
	defer b.pre("atomic.Int32.CompareAndSwap")()
	if b.v == o {
		b.v = n
		return true
	}
	return false
}

type Uint32 struct {
	cell atomicCell
	v    uint32
	mu   sync.Mutex
}

func (b *Uint32) pre(d string) func() {
	if S == nil {
		b.mu.Lock()
		return b.mu.Unlock
	}
	b.cell.op(d)
	return func() {}
}
func (b *Uint32) Load() uint32         { defer b.pre("atomic.Uint32.Load")(); return b.v }
func (b *Uint32) Store(v uint32)       { defer b.pre("atomic.Uint32.Store")(); b.v = v }
func (b *Uint32) Add(d uint32) uint32  { defer b.pre("atomic.Uint32.Add")(); b.v += d; return b.v }
func (b *Uint32) Swap(v uint32) uint32 { defer b.pre("atomic.Uint32.Swap")(); o := b.v; b.v = v; return o }
func (b *Uint32) CompareAndSwap(o, n uint32) bool {
	defer b.pre("atomic.Uint32.CompareAndSwap")()
	if b.v == o {
		b.v = n
		return true
	}
	return false
}

// ---- function-form atomics on plain variables (sync/atomic.AddUint32(&x, ...) etc.) ----

func (s *Sched) cellAt(addr uintptr) *atomicCell {
	if s.acells == nil {
		s.acells = map[uintptr]*atomicCell{}
	}
	c := s.acells[addr]
	if c == nil {
		c = &atomicCell{gen: gen}
		s.acells[addr] = c
	}
	return c
}

// AtomicAt makes the calling thread perform a modelled atomic operation on the variable at addr
// (a scheduling point that joins the clocks of all earlier atomic operations on the same variable).
func AtomicAt(addr uintptr, desc string) {
	s := S
	if s == nil || s.poison {
		return
	}
	s.cellAt(addr).op(desc)
}
