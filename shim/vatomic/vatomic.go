// Package vatomic stands in for "sync/atomic" in the rewritten packages (typed atomics only; the
// function forms are not used by the library and would be a build error, never a silent pass-through).
package vatomic

import "github.com/vmware/go-ipfix/pkg/verifshim/vsched"

type Bool = vsched.Bool
type Int32 = vsched.Int32
type Int64 = vsched.Int64
type Uint32 = vsched.Uint32
type Uint64 = vsched.Uint64
