// Package vatomic stands in for "sync/atomic" in the rewritten packages: the typed atomics are modelled
// objects, the function forms operate on the real variable inside a modelled atomic step.
package vatomic

import (
	"sync/atomic"
	"unsafe"

	"github.com/vmware/go-ipfix/pkg/verifshim/vsched"
)

type Bool = vsched.Bool
type Int32 = vsched.Int32
type Int64 = vsched.Int64
type Uint32 = vsched.Uint32
type Uint64 = vsched.Uint64
type Value = atomic.Value

func at(p unsafe.Pointer, d string) { vsched.AtomicAt(uintptr(p), d) }

func AddInt32(a *int32, d int32) int32       { at(unsafe.Pointer(a), "atomic.AddInt32"); return atomic.AddInt32(a, d) }
func AddInt64(a *int64, d int64) int64       { at(unsafe.Pointer(a), "atomic.AddInt64"); return atomic.AddInt64(a, d) }
func AddUint32(a *uint32, d uint32) uint32   { at(unsafe.Pointer(a), "atomic.AddUint32"); return atomic.AddUint32(a, d) }
func AddUint64(a *uint64, d uint64) uint64   { at(unsafe.Pointer(a), "atomic.AddUint64"); return atomic.AddUint64(a, d) }
func LoadInt32(a *int32) int32               { at(unsafe.Pointer(a), "atomic.LoadInt32"); return atomic.LoadInt32(a) }
func LoadInt64(a *int64) int64               { at(unsafe.Pointer(a), "atomic.LoadInt64"); return atomic.LoadInt64(a) }
func LoadUint32(a *uint32) uint32            { at(unsafe.Pointer(a), "atomic.LoadUint32"); return atomic.LoadUint32(a) }
func LoadUint64(a *uint64) uint64            { at(unsafe.Pointer(a), "atomic.LoadUint64"); return atomic.LoadUint64(a) }
func StoreInt32(a *int32, v int32)           { at(unsafe.Pointer(a), "atomic.StoreInt32"); atomic.StoreInt32(a, v) }
func StoreInt64(a *int64, v int64)           { at(unsafe.Pointer(a), "atomic.StoreInt64"); atomic.StoreInt64(a, v) }
func StoreUint32(a *uint32, v uint32)        { at(unsafe.Pointer(a), "atomic.StoreUint32"); atomic.StoreUint32(a, v) }
func StoreUint64(a *uint64, v uint64)        { at(unsafe.Pointer(a), "atomic.StoreUint64"); atomic.StoreUint64(a, v) }
func SwapInt32(a *int32, v int32) int32      { at(unsafe.Pointer(a), "atomic.SwapInt32"); return atomic.SwapInt32(a, v) }
func SwapInt64(a *int64, v int64) int64      { at(unsafe.Pointer(a), "atomic.SwapInt64"); return atomic.SwapInt64(a, v) }
func SwapUint32(a *uint32, v uint32) uint32  { at(unsafe.Pointer(a), "atomic.SwapUint32"); return atomic.SwapUint32(a, v) }
func SwapUint64(a *uint64, v uint64) uint64  { at(unsafe.Pointer(a), "atomic.SwapUint64"); return atomic.SwapUint64(a, v) }
func CompareAndSwapInt32(a *int32, o, n int32) bool {
	at(unsafe.Pointer(a), "atomic.CompareAndSwapInt32")
	return atomic.CompareAndSwapInt32(a, o, n)
}
func CompareAndSwapInt64(a *int64, o, n int64) bool {
	at(unsafe.Pointer(a), "atomic.CompareAndSwapInt64")
	return atomic.CompareAndSwapInt64(a, o, n)
}
func CompareAndSwapUint32(a *uint32, o, n uint32) bool {
	at(unsafe.Pointer(a), "atomic.CompareAndSwapUint32")
	return atomic.CompareAndSwapUint32(a, o, n)
}
func CompareAndSwapUint64(a *uint64, o, n uint64) bool {
	at(unsafe.Pointer(a), "atomic.CompareAndSwapUint64")
	return atomic.CompareAndSwapUint64(a, o, n)
}

// Pointer stands in for atomic.Pointer[T]: the real atomic underneath, each operation a modelled
// atomic step keyed on the variable's address.
type Pointer[T any] struct {
	p atomic.Pointer[T]
}

func (x *Pointer[T]) Load() *T { at(unsafe.Pointer(x), "atomic.Pointer.Load"); return x.p.Load() }
func (x *Pointer[T]) Store(v *T) {
	at(unsafe.Pointer(x), "atomic.Pointer.Store")
	x.p.Store(v)
}
func (x *Pointer[T]) Swap(v *T) *T {
	at(unsafe.Pointer(x), "atomic.Pointer.Swap")
	return x.p.Swap(v)
}
func (x *Pointer[T]) CompareAndSwap(o, n *T) bool {
	at(unsafe.Pointer(x), "atomic.Pointer.CompareAndSwap")
	return x.p.CompareAndSwap(o, n)
}
