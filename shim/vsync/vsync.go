// Package vsync stands in for "sync" in the rewritten packages.
package vsync

import (
	"sync"

	"github.com/vmware/go-ipfix/pkg/verifshim/vsched"
)

type Mutex = vsched.Mutex
type RWMutex = vsched.RWMutex
type WaitGroup = vsched.WaitGroup
type Once = vsched.Once
type Locker = sync.Locker
type Map = sync.Map
type Pool = sync.Pool
