// Package vtime stands in for "time" in the rewritten packages: same names, virtual clock when a
// scheduler is active, the real package otherwise.
package vtime

import (
	"time"

	"github.com/vmware/go-ipfix/pkg/verifshim/vsched"
)

type Duration = time.Duration
type Time = time.Time
type Month = time.Month
type Weekday = time.Weekday
type Location = time.Location

const (
	Nanosecond  = time.Nanosecond
	Microsecond = time.Microsecond
	Millisecond = time.Millisecond
	Second      = time.Second
	Minute      = time.Minute
	Hour        = time.Hour
)

const (
	RFC3339     = time.RFC3339
	RFC3339Nano = time.RFC3339Nano
	RFC1123     = time.RFC1123
	RFC822      = time.RFC822
	Kitchen     = time.Kitchen
)

var UTC = time.UTC
var Local = time.Local

func Unix(sec, nsec int64) Time               { return time.Unix(sec, nsec) }
func UnixMilli(ms int64) Time                 { return time.UnixMilli(ms) }
func Date(y int, m Month, d, h, mi, s, ns int, l *Location) Time { return time.Date(y, m, d, h, mi, s, ns, l) }
func ParseDuration(s string) (Duration, error) { return time.ParseDuration(s) }
func Parse(l, v string) (Time, error)          { return time.Parse(l, v) }

func Now() Time { return vsched.VNow() }

func Since(t Time) Duration { return Now().Sub(t) }
func Until(t Time) Duration { return t.Sub(Now()) }

type Timer struct {
	C    <-chan Time
	real *time.Timer
	m    *vsched.TimerModel
}

func AfterFunc(d Duration, f func()) *Timer {
	if vsched.S == nil {
		return &Timer{real: time.AfterFunc(d, f)}
	}
	return &Timer{m: vsched.NewTimerModel(d, f, 0, false)}
}

func NewTimer(d Duration) *Timer {
	if vsched.S == nil {
		r := time.NewTimer(d)
		return &Timer{real: r, C: r.C}
	}
	m := vsched.NewTimerModel(d, nil, 0, true)
	return &Timer{m: m, C: m.C}
}

func After(d Duration) <-chan Time { return NewTimer(d).C }

func (t *Timer) Stop() bool {
	if t.real != nil {
		return t.real.Stop()
	}
	if vsched.S == nil {
		return false
	}
	return t.m.Stop()
}

func (t *Timer) Reset(d Duration) bool {
	if t.real != nil {
		return t.real.Reset(d)
	}
	if vsched.S == nil {
		return false
	}
	return t.m.Reset(d)
}

// Model exposes the modelled timer (harness invariants).
func (t *Timer) Model() *vsched.TimerModel { return t.m }

type Ticker struct {
	C    <-chan Time
	real *time.Ticker
	m    *vsched.TimerModel
}

func NewTicker(d Duration) *Ticker {
	if d <= 0 {
		panic("non-positive interval for NewTicker")
	}
	if vsched.S == nil {
		r := time.NewTicker(d)
		return &Ticker{real: r, C: r.C}
	}
	m := vsched.NewTimerModel(d, nil, d, true)
	return &Ticker{m: m, C: m.C}
}

func (t *Ticker) Stop() {
	if t.real != nil {
		t.real.Stop()
		return
	}
	if vsched.S == nil {
		return
	}
	t.m.Stop()
}

func (t *Ticker) Reset(d Duration) {
	if t.real != nil {
		t.real.Reset(d)
		return
	}
	if vsched.S == nil {
		return
	}
	t.m.Period = d
	t.m.Reset(d)
}

func Sleep(d Duration) {
	if vsched.S == nil {
		time.Sleep(d)
		return
	}
	// a sleeping thread wakes when the virtual clock has been advanced past its deadline
	target := Now().Add(d)
	vsched.WaitUntil("sleep", func() bool { return !vsched.VNow().Before(target) })
}
