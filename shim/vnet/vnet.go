// Package vnet stands in for "net" in the rewritten packages. With no scheduler active everything
// passes through to the real package. Under the scheduler, Dial/Listen/ListenUDP create in-memory
// endpoints whose Read/Write/Accept/Close are scheduler-visible operations.
package vnet

import (
	"errors"
	"fmt"
	"io"
	"net"
	"os"
	"strconv"
	"time"

	"github.com/vmware/go-ipfix/pkg/verifshim/vsched"
)

type Conn = net.Conn
type Listener = net.Listener
type Addr = net.Addr
type IP = net.IP
type IPNet = net.IPNet
type IPMask = net.IPMask
type HardwareAddr = net.HardwareAddr
type UDPAddr = net.UDPAddr
type TCPAddr = net.TCPAddr
type Error = net.Error
type OpError = net.OpError
type PacketConn = net.PacketConn
type Dialer = net.Dialer

var ErrClosed = net.ErrClosed

const (
	IPv4len = net.IPv4len
	IPv6len = net.IPv6len
)

var (
	IPv4zero     = net.IPv4zero
	IPv6zero     = net.IPv6zero
	IPv4bcast    = net.IPv4bcast
	IPv6loopback = net.IPv6loopback
)

type UnixAddr = net.UnixAddr
type AddrError = net.AddrError
type DNSError = net.DNSError
type Interface = net.Interface
type Flags = net.Flags

func CIDRMask(ones, bits int) IPMask           { return net.CIDRMask(ones, bits) }
func IPv4Mask(a, b, c, d byte) IPMask          { return net.IPv4Mask(a, b, c, d) }
func LookupHost(h string) ([]string, error)    { return net.LookupHost(h) }
func LookupIP(h string) ([]IP, error)          { return net.LookupIP(h) }
func DialTimeout(network, address string, _ time.Duration) (Conn, error) { return Dial(network, address) }

func ParseIP(s string) IP                                  { return net.ParseIP(s) }
func ParseMAC(s string) (HardwareAddr, error)              { return net.ParseMAC(s) }
func ParseCIDR(s string) (IP, *IPNet, error)               { return net.ParseCIDR(s) }
func IPv4(a, b, c, d byte) IP                              { return net.IPv4(a, b, c, d) }
func JoinHostPort(h, p string) string                      { return net.JoinHostPort(h, p) }
func SplitHostPort(hp string) (string, string, error)      { return net.SplitHostPort(hp) }
func ResolveUDPAddr(n, a string) (*UDPAddr, error)         { return net.ResolveUDPAddr(n, a) }
func ResolveTCPAddr(n, a string) (*TCPAddr, error)         { return net.ResolveTCPAddr(n, a) }

// ---------------- virtual network ----------------

type world struct {
	listeners map[string]*FakeListener
	udp       map[string]*UDPConn
	nextPort  int
	tcpClients int
	Conns     []*FakeConn
}

func w() *world {
	e := vsched.Ext()
	if *e == nil {
		*e = &world{listeners: map[string]*FakeListener{}, udp: map[string]*UDPConn{}, nextPort: 40000}
	}
	return (*e).(*world)
}

func (wd *world) port() int { wd.nextPort++; return wd.nextPort }

func normalize(wd *world, address string) (string, int, string) {
	host, ps, err := net.SplitHostPort(address)
	if err != nil {
		return address, 0, address
	}
	p, _ := strconv.Atoi(ps)
	if p == 0 {
		p = wd.port()
	}
	if host == "" {
		host = "0.0.0.0"
	}
	return host, p, net.JoinHostPort(host, strconv.Itoa(p))
}

type timeoutErr struct{}

func (timeoutErr) Error() string   { return "i/o timeout" }
func (timeoutErr) Timeout() bool   { return true }
func (timeoutErr) Temporary() bool { return true }
func (timeoutErr) Is(t error) bool { return t == os.ErrDeadlineExceeded }

// Segment is one Write as seen by the peer.
type Segment struct {
	Data   []byte
	Thread int
	Step   int
	At     time.Time // virtual time of the write
}

// FakeConn is one endpoint of an in-memory stream (tcp) or a connected datagram socket (udp client).
type FakeConn struct {
	Name       string
	network    string
	local      net.Addr
	remote     net.Addr
	peer       *FakeConn
	in         [][]byte // inbound segments
	closed     bool
	peerClosed bool
	deadline   time.Time
	hasDL      bool
	// SegmentReads: a Read returns bytes of at most one inbound segment (default: coalesce all).
	SegmentReads bool
	// Writes logs every successful Write on this endpoint.
	Writes []Segment
	// WritesAfterClose counts Write calls made after this endpoint was closed locally.
	WritesAfterClose int
	udpTarget string
	clk    vsched.Clock
	// FailWrites: the next n Write calls fail with an I/O error and write nothing (fault injection).
	FailWrites   int
	FailedWrites int
	// FailWritesOf: when non-zero only writes made by that scheduler thread count as "next" for FailWrites
	FailWritesOf int
	// WriteCap > 0: a Write blocks while the peer has that many unread segments queued (a collector
	// that is alive but not reading, socket buffers full); closing either side unblocks it.
	WriteCap int
}

func (c *FakeConn) avail() int {
	n := 0
	for _, s := range c.in {
		n += len(s)
	}
	return n
}

func (c *FakeConn) Read(b []byte) (int, error) {
	if vsched.Poisoned() {
		return 0, net.ErrClosed
	}
	// a read with a deadline times out when the virtual clock has passed the deadline (only the harness
	// moves the clock), never spontaneously: a polling reader parks instead of spinning
	expired := func() bool { return c.hasDL && !vsched.VNow().Before(c.deadline) }
	vsched.VisibleOp("read", "Read "+c.Name, func() bool { return len(c.in) > 0 || c.closed || c.peerClosed || expired() })
	if c.closed {
		return 0, &net.OpError{Op: "read", Net: c.network, Err: net.ErrClosed}
	}
	if expired() {
		return 0, &net.OpError{Op: "read", Net: c.network, Err: timeoutErr{}}
	}
	if len(c.in) > 0 {
		c.clk.Acquire()
		n := 0
		for n < len(b) && len(c.in) > 0 {
			k := copy(b[n:], c.in[0])
			n += k
			if k == len(c.in[0]) {
				c.in = c.in[1:]
			} else {
				c.in[0] = c.in[0][k:]
			}
			if c.SegmentReads {
				break
			}
		}
		return n, nil
	}
	if c.peerClosed {
		c.clk.Acquire()
		return 0, io.EOF
	}
	return 0, &net.OpError{Op: "read", Net: c.network, Err: timeoutErr{}}
}

func (c *FakeConn) Write(b []byte) (int, error) {
	if vsched.Poisoned() {
		return 0, net.ErrClosed
	}
	vsched.VisibleOp("write", "Write "+c.Name, func() bool {
		return c.WriteCap == 0 || c.closed || c.peer == nil || c.peer.closed || len(c.peer.in) < c.WriteCap
	})
	if c.closed {
		c.WritesAfterClose++
		return 0, &net.OpError{Op: "write", Net: c.network, Err: net.ErrClosed}
	}
	if c.FailWrites > 0 && (c.FailWritesOf == 0 || c.FailWritesOf == vsched.CurID()) {
		c.FailWrites--
		c.FailedWrites++
		return 0, &net.OpError{Op: "write", Net: c.network, Err: errors.New("injected write failure")}
	}
	data := append([]byte{}, b...)
	c.Writes = append(c.Writes, Segment{Data: data, Thread: vsched.CurID(), Step: vsched.StepNo(), At: vsched.VNow()})
	if c.network == "udp" {
		wd := w()
		if u, ok := wd.udp[c.udpTarget]; ok && !u.closed {
			u.clk.Release()
			u.in = append(u.in, datagram{from: c.local.(*net.UDPAddr), data: data})
		}
		return len(b), nil
	}
	if c.peer != nil && !c.peer.closed {
		c.peer.clk.Release()
		c.peer.in = append(c.peer.in, data)
	}
	return len(b), nil
}

func (c *FakeConn) Close() error {
	if vsched.Poisoned() {
		return nil
	}
	vsched.VisibleOp("connclose", "Close "+c.Name, func() bool { return true })
	if c.closed {
		return &net.OpError{Op: "close", Net: c.network, Err: net.ErrClosed}
	}
	c.closed = true
	if c.peer != nil {
		c.peer.clk.Release()
		c.peer.peerClosed = true
	}
	return nil
}

func (c *FakeConn) LocalAddr() net.Addr  { return c.local }
func (c *FakeConn) RemoteAddr() net.Addr { return c.remote }
func (c *FakeConn) SetDeadline(t time.Time) error {
	c.deadline, c.hasDL = t, !t.IsZero()
	return nil
}
func (c *FakeConn) SetReadDeadline(t time.Time) error  { return c.SetDeadline(t) }
func (c *FakeConn) SetWriteDeadline(t time.Time) error { return nil }
func (c *FakeConn) Closed() bool                       { return c.closed }
func (c *FakeConn) PeerClosed() bool                   { return c.peerClosed }
func (c *FakeConn) Peer() *FakeConn                    { return c.peer }
func (c *FakeConn) Pending() int                       { return c.avail() }

type FakeListener struct {
	addr    *net.TCPAddr
	key     string
	pending []*FakeConn
	closed  bool
	clk     vsched.Clock
}

func (l *FakeListener) Accept() (net.Conn, error) {
	if vsched.Poisoned() {
		return nil, net.ErrClosed
	}
	vsched.VisibleOp("accept", "Accept "+l.key, func() bool { return len(l.pending) > 0 || l.closed })
	if l.closed {
		return nil, &net.OpError{Op: "accept", Net: "tcp", Err: net.ErrClosed}
	}
	c := l.pending[0]
	l.pending = l.pending[1:]
	l.clk.Acquire()
	return c, nil
}

func (l *FakeListener) Close() error {
	if vsched.Poisoned() {
		return nil
	}
	vsched.VisibleOp("lclose", "Close listener "+l.key, func() bool { return true })
	if l.closed {
		return &net.OpError{Op: "close", Net: "tcp", Err: net.ErrClosed}
	}
	l.closed = true
	delete(w().listeners, l.key)
	return nil
}

func (l *FakeListener) Addr() net.Addr { return l.addr }
func (l *FakeListener) Closed() bool   { return l.closed }

func Listen(network, address string) (Listener, error) {
	if vsched.S == nil {
		return net.Listen(network, address)
	}
	if network != "tcp" && network != "tcp4" && network != "tcp6" {
		return nil, fmt.Errorf("vnet: unsupported network %q", network)
	}
	wd := w()
	host, port, key := normalize(wd, address)
	if _, dup := wd.listeners[key]; dup {
		return nil, &net.OpError{Op: "listen", Net: network, Err: errors.New("address already in use")}
	}
	l := &FakeListener{addr: &net.TCPAddr{IP: net.ParseIP(host), Port: port}, key: key}
	wd.listeners[key] = l
	return l, nil
}

func Dial(network, address string) (Conn, error) {
	if vsched.S == nil {
		return net.Dial(network, address)
	}
	wd := w()
	switch network {
	case "tcp", "tcp4", "tcp6":
		vsched.VisibleOp("dial", "Dial "+address, func() bool { return true })
		l, ok := wd.listeners[address]
		if !ok || l.closed {
			return nil, &net.OpError{Op: "dial", Net: network, Err: errors.New("connection refused")}
		}
		cport := wd.port()
		// every other client reaches the (dual-stack) listener from the IPv6 loopback address
		ip := "127.0.0.1"
		if wd.tcpClients++; wd.tcpClients%2 == 0 {
			ip = "::1"
		}
		ca := &net.TCPAddr{IP: net.ParseIP(ip), Port: cport}
		cl := &FakeConn{Name: fmt.Sprintf("tcp-client:%d", cport), network: "tcp", local: ca, remote: l.addr}
		sv := &FakeConn{Name: fmt.Sprintf("tcp-server:%d", cport), network: "tcp", local: l.addr, remote: ca}
		cl.peer, sv.peer = sv, cl
		wd.Conns = append(wd.Conns, cl, sv)
		l.clk.Release()
		l.pending = append(l.pending, sv)
		return cl, nil
	case "udp", "udp4", "udp6":
		cport := wd.port()
		ra, err := net.ResolveUDPAddr("udp", address)
		if err != nil {
			return nil, err
		}
		ca := &net.UDPAddr{IP: net.ParseIP("127.0.0.1"), Port: cport}
		cl := &FakeConn{Name: fmt.Sprintf("udp-client:%d", cport), network: "udp", local: ca, remote: ra, udpTarget: address}
		wd.Conns = append(wd.Conns, cl)
		return cl, nil
	}
	return nil, fmt.Errorf("vnet: unsupported network %q", network)
}

// DialFrom is Dial for harness clients that want to be found later by name.
func Conns() []*FakeConn {
	if vsched.S == nil {
		return nil
	}
	return w().Conns
}

type datagram struct {
	from *net.UDPAddr
	data []byte
}

// UDPConn stands in for *net.UDPConn (only the methods the library uses).
type UDPConn struct {
	real   *net.UDPConn
	addr   *net.UDPAddr
	key    string
	in     []datagram
	closed bool
	clk    vsched.Clock
}

func ListenUDP(network string, laddr *UDPAddr) (*UDPConn, error) {
	if vsched.S == nil {
		r, err := net.ListenUDP(network, laddr)
		if err != nil {
			return nil, err
		}
		return &UDPConn{real: r}, nil
	}
	wd := w()
	host, port, key := normalize(wd, laddr.String())
	if _, dup := wd.udp[key]; dup {
		return nil, &net.OpError{Op: "listen", Net: network, Err: errors.New("address already in use")}
	}
	u := &UDPConn{addr: &net.UDPAddr{IP: net.ParseIP(host), Port: port}, key: key}
	wd.udp[key] = u
	return u, nil
}

func (u *UDPConn) ReadFromUDP(b []byte) (int, *UDPAddr, error) {
	if u.real != nil {
		return u.real.ReadFromUDP(b)
	}
	if vsched.Poisoned() {
		return 0, nil, net.ErrClosed
	}
	vsched.VisibleOp("udpread", "ReadFromUDP "+u.key, func() bool { return len(u.in) > 0 || u.closed })
	if u.closed {
		return 0, nil, &net.OpError{Op: "read", Net: "udp", Err: net.ErrClosed}
	}
	d := u.in[0]
	u.in = u.in[1:]
	u.clk.Acquire()
	n := copy(b, d.data)
	return n, d.from, nil
}

func (u *UDPConn) Close() error {
	if u.real != nil {
		return u.real.Close()
	}
	if vsched.Poisoned() {
		return nil
	}
	vsched.VisibleOp("udpclose", "Close "+u.key, func() bool { return true })
	if u.closed {
		return &net.OpError{Op: "close", Net: "udp", Err: net.ErrClosed}
	}
	u.closed = true
	delete(w().udp, u.key)
	return nil
}

func (u *UDPConn) LocalAddr() net.Addr {
	if u.real != nil {
		return u.real.LocalAddr()
	}
	return u.addr
}

func (u *UDPConn) Closed() bool { return u.closed }
func (u *UDPConn) Queued() int  { return len(u.in) }

func (u *UDPConn) SetReadDeadline(t time.Time) error {
	if u.real != nil {
		return u.real.SetReadDeadline(t)
	}
	return nil
}

func (u *UDPConn) WriteToUDP(b []byte, addr *UDPAddr) (int, error) {
	if u.real != nil {
		return u.real.WriteToUDP(b, addr)
	}
	return len(b), nil
}

// ListenerOpen / UDPOpen report whether an endpoint is still registered (leak checks).
func ListenerOpen(addr string) bool {
	if vsched.S == nil {
		return false
	}
	_, ok := w().listeners[addr]
	return ok
}

func UDPOpen(addr string) bool {
	if vsched.S == nil {
		return false
	}
	_, ok := w().udp[addr]
	return ok
}
