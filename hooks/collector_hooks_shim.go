//go:build verif

// Injected only in the shim flavour (uses methods of the shim's RWMutex).
package collector

// VerifMutexFree reports whether cp.mutex is held by nobody (scheduler invariant hooks).
func (cp *CollectingProcess) VerifMutexFree() bool { return cp.mutex.Free() }

// VerifWGCount returns the modelled WaitGroup counter (shim flavour only).
func (cp *CollectingProcess) VerifWGCount() int { return cp.wg.Count() }
