//go:build verif

// Injected by /verif (go build -overlay) as pkg/collector/zz_verif_hooks.go. Adds read-only
// observers and thin exported wrappers around unexported entry points; changes no behaviour.
package collector

import (
	"bytes"
	"sort"
	"time"

	"github.com/vmware/go-ipfix/pkg/entities"
)

// VerifTimer / VerifClock export the unexported clock seam so a harness can inject its own clock.
type VerifTimer = timer
type VerifClock = clock

// VerifInitCollectingProcess is initCollectingProcess with an external clock (nil = real clock).
func VerifInitCollectingProcess(input CollectorInput, c VerifClock) (*CollectingProcess, error) {
	if c == nil {
		return initCollectingProcess(input, realClock{})
	}
	return initCollectingProcess(input, c)
}

// VerifDecodePacket drives decodePacket directly.
func (cp *CollectingProcess) VerifDecodePacket(b []byte, exportAddress string) (*entities.Message, error) {
	return cp.decodePacket(bytes.NewBuffer(b), exportAddress)
}

// VerifSetMsgChan replaces the (unbuffered) message channel; only for single-threaded harnesses
// which drain it themselves. Must be called before any traffic.
func (cp *CollectingProcess) VerifSetMsgChan(ch chan *entities.Message) {
	cp.messageChan = ch
}

type VerifTemplate struct {
	Domain     uint32
	ID         uint16
	IEs        []entities.InfoElement
	ExpiryTime time.Time
	HasTimer   bool
	Timer      VerifTimer
}

// VerifTemplatesNoLock renders the template table without taking cp.mutex (caller guarantees
// exclusivity: single-threaded harness, or controlled scheduler with the lock observed free).
func (cp *CollectingProcess) VerifTemplatesNoLock() ([]VerifTemplate, []uint32) {
	var out []VerifTemplate
	var domains []uint32
	for d, m := range cp.templatesMap {
		domains = append(domains, d)
		for id, t := range m {
			vt := VerifTemplate{Domain: d, ID: id, ExpiryTime: t.expiryTime, HasTimer: t.expiryTimer != nil, Timer: t.expiryTimer}
			for _, ie := range t.ies {
				vt.IEs = append(vt.IEs, *ie)
			}
			out = append(out, vt)
		}
	}
	sort.Slice(out, func(i, j int) bool {
		if out[i].Domain != out[j].Domain {
			return out[i].Domain < out[j].Domain
		}
		return out[i].ID < out[j].ID
	})
	sort.Slice(domains, func(i, j int) bool { return domains[i] < domains[j] })
	return out, domains
}

// VerifTemplates is VerifTemplatesNoLock under the read lock.
func (cp *CollectingProcess) VerifTemplates() ([]VerifTemplate, []uint32) {
	cp.mutex.RLock()
	defer cp.mutex.RUnlock()
	return cp.VerifTemplatesNoLock()
}

// VerifNumClientsNoLock returns len(cp.clients) without locking.
func (cp *CollectingProcess) VerifNumClientsNoLock() int { return len(cp.clients) }

// VerifGetFieldLength exposes getFieldLength.
func VerifGetFieldLength(b *bytes.Buffer) int { return getFieldLength(b) }
