//go:build verif

// Injected by /verif (go test -overlay) as cmd/collector/zz_verif_driver_test.go: the C20 model-checking
// driver. Package main cannot be imported, so the explorer for this property lives in this file.
package main

import (
	"encoding/json"
	"fmt"
	"net"
	"net/http"
	"net/http/httptest"
	"os"
	"strconv"
	"strings"
	"testing"
	"time"

	"github.com/vmware/go-ipfix/pkg/entities"
	"github.com/vmware/go-ipfix/pkg/registry"
)

type c20op struct {
	name   string
	kind   string // arrive-template | arrive-every | arrive-two | get | wrong | reset
	count  string // "" = absent
	format string
	method string
	path   string
}

func c20Ops() []c20op {
	ops := []c20op{{name: "Arrive(template)", kind: "arrive-template"}, {name: "Arrive(data, one field of every type)", kind: "arrive-every"}, {name: "Arrive(data, 2 records)", kind: "arrive-two"},
		{name: "Arrive(data, 3000 records)", kind: "arrive-big"}}
	for _, f := range []string{"json", "text"} {
		for _, c := range []string{"", "0", "1", "2", "4096", "4097", "-1", "x"} {
			if f == "text" && c == "x" {
				c = "-9223372036854775809" // a negative count that does not even fit an int: invalid like -1
			}
			ops = append(ops, c20op{name: fmt.Sprintf("GET /records?count=%s&format=%s", c, f), kind: "get", count: c, format: f})
		}
	}
	ops = append(ops, c20op{name: "GET /records", kind: "get"}, c20op{name: "GET /records?count=2", kind: "get", count: "2"}, c20op{name: "GET /records?count=1&format=xml", kind: "get", count: "1", format: "xml"},
		c20op{name: "POST /records", kind: "wrong", method: "POST", path: "/records"}, c20op{name: "GET /reset", kind: "wrong", method: "GET", path: "/reset"}, c20op{name: "DELETE /records", kind: "wrong", method: "DELETE", path: "/records"},
		c20op{name: "POST /reset", kind: "reset"},
		// messages arriving while a response is being written (as early as the store's lock allows)
		c20op{name: "GET /records?format=text with 3 arrivals during the response", kind: "get-arrivals", format: "text"},
		c20op{name: "GET /records?count=4096&format=json with 3 arrivals during the response", kind: "get-arrivals", format: "json", count: "4096"})
	return ops
}

type c20fieldWant struct{ name, value string }

func c20ie(name string, ent uint32) *entities.InfoElement {
	ie, err := registry.GetInfoElement(name, ent)
	if err != nil {
		panic(err)
	}
	return ie
}

var c20seq uint32

// c20message builds a decoded message the way the collecting process delivers it and says which
// "name: value" pairs must appear in its rendering.
func c20message(kind string) (*entities.Message, []c20fieldWant) {
	c20seq++
	m := entities.NewMessage(true)
	m.SetVersion(10)
	m.SetMessageLen(123)
	m.SetExportTime(1700000000)
	m.SetSequenceNum(c20seq)
	m.SetObsDomainID(42)
	set := entities.NewSet(true)
	var want []c20fieldWant
	A := registry.AntreaEnterpriseID
	switch kind {
	case "arrive-template":
		set.PrepareSet(entities.Template, 256)
		var els []entities.InfoElementWithValue
		names := []string{"sourceIPv4Address", "sourceTransportPort", "interfaceName"}
		if c20seq%2 == 1 {
			// every other template message re-defines the same template id with other fields
			names = []string{"destinationIPv4Address", "protocolIdentifier", "octetDeltaCount", "flowEndReason"}
		}
		for _, n := range names {
			e, _ := entities.DecodeAndCreateInfoElementWithValue(c20ie(n, 0), nil)
			els = append(els, e)
			want = append(want, c20fieldWant{n, ""})
		}
		set.AddRecordV2(els, 256)
	case "arrive-every":
		set.PrepareSet(entities.Data, 256)
		els := []entities.InfoElementWithValue{
			entities.NewUnsigned8InfoElement(c20ie("protocolIdentifier", 0), 17),
			entities.NewUnsigned16InfoElement(c20ie("sourceTransportPort", 0), 65535),
			entities.NewUnsigned32InfoElement(c20ie("ingressInterface", 0), 4294967295),
			entities.NewUnsigned64InfoElement(c20ie("octetDeltaCount", 0), 18446744073709551615),
			entities.NewSigned32InfoElement(c20ie("mibObjectValueInteger", 0), -5),
			entities.NewFloat64InfoElement(c20ie("absoluteError", 0), 1.5),
			entities.NewBoolInfoElement(c20ie("dataRecordsReliability", 0), true),
			entities.NewMacAddressInfoElement(c20ie("sourceMacAddress", 0), net.HardwareAddr{2, 0, 0, 0, 0, 9}),
			entities.NewStringInfoElement(c20ie("interfaceName", 0), "eth-verif"),
			entities.NewDateTimeSecondsInfoElement(c20ie("flowStartSeconds", 0), 1700000001),
			entities.NewDateTimeMillisecondsInfoElement(c20ie("flowStartMilliseconds", 0), 1700000001234),
			entities.NewIPAddressInfoElement(c20ie("sourceIPv4Address", 0), net.ParseIP("10.1.2.3").To4()),
			entities.NewIPAddressInfoElement(c20ie("sourceIPv6Address", 0), net.ParseIP("2001:db8::7")),
			entities.NewOctetArrayInfoElement(c20ie("ipHeaderPacketSection", 0), []byte{0xde, 0xad, 0xbe, 0xef}),
			entities.NewStringInfoElement(c20ie("sourcePodName", A), "pod-verif 100%d%20 /a%2Fb %s %%\x01\a\x7f\"q\""),
		}
		set.AddRecordV2(els, 256)
		want = []c20fieldWant{{"protocolIdentifier", "17"}, {"sourceTransportPort", "65535"}, {"ingressInterface", "4294967295"}, {"octetDeltaCount", "18446744073709551615"},
			{"mibObjectValueInteger", "-5"}, {"absoluteError", "1.5"}, {"dataRecordsReliability", "true"}, {"sourceMacAddress", "02:00:00:00:00:09"}, {"interfaceName", "eth-verif"},
			{"flowStartSeconds", "1700000001"}, {"flowStartMilliseconds", "1700000001234"}, {"sourceIPv4Address", "10.1.2.3"}, {"sourceIPv6Address", "2001:db8::7"},
			{"ipHeaderPacketSection", "OCTETS"}, {"sourcePodName", "pod-verif 100%d%20 /a%2Fb %s %%\x01\a\x7f\"q\""}}
	case "arrive-big":
		// a legal message (about 40 kB on the wire) whose rendering is several times larger
		set.PrepareSet(entities.Data, 257)
		for r := 0; r < 3000; r++ {
			els := []entities.InfoElementWithValue{
				entities.NewUnsigned16InfoElement(c20ie("sourceTransportPort", 0), uint16(r)),
				entities.NewStringInfoElement(c20ie("interfaceName", 0), fmt.Sprintf("big-%d-%d", c20seq, r)),
			}
			set.AddRecordV2(els, 257)
			if r == 0 || r == 1499 || r == 2999 {
				want = append(want, c20fieldWant{"sourceTransportPort", fmt.Sprint(r)}, c20fieldWant{"interfaceName", fmt.Sprintf("big-%d-%d", c20seq, r)})
			}
		}
	case "arrive-two":
		set.PrepareSet(entities.Data, 257)
		for r := 0; r < 2; r++ {
			els := []entities.InfoElementWithValue{
				entities.NewUnsigned16InfoElement(c20ie("sourceTransportPort", 0), uint16(1000+r)),
				entities.NewStringInfoElement(c20ie("interfaceName", 0), fmt.Sprintf("if-%d-%d", c20seq, r)),
				// the same element a second time in one record (a template may list an element twice)
				entities.NewStringInfoElement(c20ie("interfaceName", 0), fmt.Sprintf("again-%d-%d", c20seq, r)),
			}
			set.AddRecordV2(els, 257)
			want = append(want, c20fieldWant{"sourceTransportPort", fmt.Sprint(1000 + r)}, c20fieldWant{"interfaceName", fmt.Sprintf("if-%d-%d", c20seq, r)},
				c20fieldWant{"interfaceName", fmt.Sprintf("again-%d-%d", c20seq, r)})
		}
	}
	m.AddSet(set)
	return m, want
}

type c20viol struct{ kind, detail string }

type c20sys struct {
	ops   []c20op
	model []string // expected window
}

func c20start(n int, base []string) *c20sys {
	mutex.Lock()
	if n == 0 {
		flowRecords = nil
	} else {
		flowRecords = make([]string, len(base[:n]), cap(base))
		copy(flowRecords, base[len(base)-n:])
	}
	mutex.Unlock()
	s := &c20sys{ops: c20Ops()}
	if n > 0 {
		s.model = append([]string{}, base[len(base)-n:]...)
	}
	return s
}

func (s *c20sys) snapshot() []string {
	mutex.Lock()
	defer mutex.Unlock()
	return append([]string{}, flowRecords...)
}

func (s *c20sys) apply(opi int) (v *c20viol) {
	op := s.ops[opi]
	defer func() {
		// a handler or the store that panics takes the whole collector down
		if r := recover(); r != nil {
			mutex.TryLock() // whatever state the lock was left in, make the next Unlock legal
			mutex.Unlock()
			v = &c20viol{"panic", fmt.Sprintf("%s: panic: %v", op.name, r)}
		}
	}()
	switch op.kind {
	case "arrive-template", "arrive-every", "arrive-two", "arrive-big":
		msg, want := c20message(op.kind)
		addIPFIXMessage(msg)
		snap := s.snapshot()
		if len(snap) == 0 {
			return &c20viol{"arrival-lost", op.name + ": the store is empty after an arrival"}
		}
		entry := snap[len(snap)-1]
		if !strings.Contains(entry, fmt.Sprintf("Sequence No.: %d,", msg.GetSequenceNum())) {
			return &c20viol{"newest-not-last", fmt.Sprintf("%s: the newest entry is not the message that just arrived (sequence %d): %.120q", op.name, msg.GetSequenceNum(), entry)}
		}
		for _, w := range want {
			if w.value == "OCTETS" {
				// any rendering of the 4 bytes de ad be ef is fine (hex, Go slice syntax, base64), an error text is not
				ok := false
				for _, r := range []string{"deadbeef", "de ad be ef", "[222 173 190 239]", "3q2+7w=="} {
					if strings.Contains(strings.ToLower(entry), w.name+": "+strings.ToLower(r)) || strings.Contains(entry, w.name+": "+r) {
						ok = true
					}
				}
				if !ok {
					line := ""
					for _, l := range strings.Split(entry, "\n") {
						if strings.Contains(l, w.name) {
							line = l
						}
					}
					return &c20viol{"field-not-rendered", fmt.Sprintf("%s: field %s (octetArray de ad be ef) does not appear with its value: %q", op.name, w.name, strings.TrimSpace(line))}
				}
				continue
			}
			needle := w.name + ": " + w.value
			if w.value == "" {
				needle = w.name + ":"
			}
			if !strings.Contains(entry, needle) {
				return &c20viol{"field-not-rendered", fmt.Sprintf("%s: %q does not appear in the rendered entry", op.name, needle)}
			}
		}
		s.model = append(s.model, entry)
		if len(s.model) > maxFlowRecords {
			s.model = s.model[len(s.model)-maxFlowRecords:]
		}
	case "get":
		q := "/records"
		sep := "?"
		if op.count != "" {
			q += sep + "count=" + op.count
			sep = "&"
		}
		if op.format != "" {
			q += sep + "format=" + op.format
		}
		rr := httptest.NewRecorder()
		flowRecordHandler(rr, httptest.NewRequest("GET", q, nil))
		n := -1
		bad := false
		if op.count != "" {
			v, err := strconv.Atoi(op.count)
			if err != nil || v < 0 {
				bad = true
			}
			n = v
		}
		if op.format != "" && op.format != "json" && op.format != "text" {
			bad = true
		}
		if bad {
			if rr.Code != http.StatusBadRequest {
				return &c20viol{"invalid-query-accepted", fmt.Sprintf("%s: status %d, expected 400", op.name, rr.Code)}
			}
			break
		}
		if rr.Code != http.StatusOK {
			return &c20viol{"valid-query-refused", fmt.Sprintf("%s: status %d", op.name, rr.Code)}
		}
		if n < 0 || n > len(s.model) {
			n = len(s.model)
		}
		want := s.model[len(s.model)-n:]
		if op.format == "text" {
			var sb strings.Builder
			for _, e := range want {
				sb.WriteString(e)
				sb.Write(flowTextSeparator)
			}
			if rr.Body.String() != sb.String() {
				return &c20viol{"wrong-window", fmt.Sprintf("%s: text response has %d bytes, expected the last %d entries (%d bytes)", op.name, rr.Body.Len(), n, sb.Len())}
			}
		} else {
			var resp struct {
				FlowRecords []string `json:"flowRecords"`
			}
			if err := json.Unmarshal(rr.Body.Bytes(), &resp); err != nil {
				return &c20viol{"bad-json", fmt.Sprintf("%s: %v", op.name, err)}
			}
			if len(resp.FlowRecords) != len(want) {
				return &c20viol{"wrong-window", fmt.Sprintf("%s: %d entries returned, expected last min(n, stored) = %d (stored %d)", op.name, len(resp.FlowRecords), len(want), len(s.model))}
			}
			for i := range want {
				if resp.FlowRecords[i] != want[i] {
					return &c20viol{"wrong-window", fmt.Sprintf("%s: entry %d of the response is not entry %d of the expected window (order or content)", op.name, i, i)}
				}
			}
		}
	case "get-arrivals":
		q := "/records?format=" + op.format
		if op.count != "" {
			q += "&count=" + op.count
		}
		rr := httptest.NewRecorder()
		var pending []*entities.Message
		var entriesAdded []string
		for i := 0; i < 3; i++ {
			m, _ := c20message("arrive-two")
			pending = append(pending, m)
		}
		deliver := func() {
			for len(pending) > 0 {
				// a concurrent arrival gets in as soon as the store's lock is free
				if !mutex.TryLock() {
					return
				}
				mutex.Unlock()
				addIPFIXMessage(pending[0])
				pending = pending[1:]
				snap := s.snapshot()
				entriesAdded = append(entriesAdded, snap[len(snap)-1])
			}
		}
		hw := &c20hookWriter{ResponseWriter: rr, hook: deliver}
		before := append([]string{}, s.model...)
		flowRecordHandler(hw, httptest.NewRequest("GET", q, nil))
		deliver() // whatever could not get in during the response arrives now
		if rr.Code != http.StatusOK {
			return &c20viol{"valid-query-refused", fmt.Sprintf("%s: status %d", op.name, rr.Code)}
		}
		var got []string
		if op.format == "text" {
			for _, part := range strings.Split(rr.Body.String(), string(flowTextSeparator)) {
				got = append(got, part)
			}
			if len(got) > 0 && got[len(got)-1] == "" {
				got = got[:len(got)-1]
			}
		} else {
			var resp struct {
				FlowRecords []string `json:"flowRecords"`
			}
			json.Unmarshal(rr.Body.Bytes(), &resp)
			got = resp.FlowRecords
		}
		// the response must be a consistent window: the store as it was before the arrivals, or after
		// the first k of them
		okAny := false
		for k := 0; k <= 3 && !okAny; k++ {
			win := append(append([]string{}, before...), entriesAdded[:min(k, len(entriesAdded))]...)
			if len(win) > maxFlowRecords {
				win = win[len(win)-maxFlowRecords:]
			}
			if len(win) == len(got) {
				same := true
				for i := range win {
					if win[i] != got[i] {
						same = false
						break
					}
				}
				okAny = same
			}
		}
		if !okAny {
			bad := -1
			for i := range got {
				if i < len(before) && got[i] != before[i] {
					bad = i
					break
				}
			}
			return &c20viol{"torn-window", fmt.Sprintf("%s: the response (%d entries) is not the stored window at any single moment (stored before: %d entries; first differing entry %d is %.40q)", op.name, len(got), len(before), bad, func() string { if bad >= 0 { return got[bad] }; return "" }())}
		}
		s.model = append(s.model, entriesAdded...)
		if len(s.model) > maxFlowRecords {
			s.model = s.model[len(s.model)-maxFlowRecords:]
		}
	case "wrong":
		rr := httptest.NewRecorder()
		req := httptest.NewRequest(op.method, op.path, nil)
		if op.path == "/records" {
			flowRecordHandler(rr, req)
		} else {
			resetRecordHandler(rr, req)
		}
		if rr.Code != http.StatusMethodNotAllowed {
			return &c20viol{"wrong-method-accepted", fmt.Sprintf("%s: status %d, expected 405", op.name, rr.Code)}
		}
	case "reset":
		rr := httptest.NewRecorder()
		resetRecordHandler(rr, httptest.NewRequest("POST", "/reset", nil))
		if rr.Code != http.StatusOK {
			return &c20viol{"reset-refused", fmt.Sprintf("POST /reset: status %d", rr.Code)}
		}
		s.model = nil
	}
	// after every op: bounded, and exactly the expected window
	snap := s.snapshot()
	if len(snap) > maxFlowRecords {
		return &c20viol{"cap-exceeded", fmt.Sprintf("after %s the store holds %d entries (cap %d)", op.name, len(snap), maxFlowRecords)}
	}
	if len(snap) != len(s.model) {
		return &c20viol{"store-size", fmt.Sprintf("after %s the store holds %d entries, expected %d", op.name, len(snap), len(s.model))}
	}
	for i := range snap {
		if snap[i] != s.model[i] {
			return &c20viol{"store-order", fmt.Sprintf("after %s entry %d of the store is not the %d-th most recent message", op.name, i, len(snap)-i)}
		}
	}
	return nil
}

type c20hookWriter struct {
	http.ResponseWriter
	hook  func()
	fired bool
}

func (h *c20hookWriter) Write(b []byte) (int, error) {
	if !h.fired {
		h.fired = true
		h.hook()
	}
	return h.ResponseWriter.Write(b)
}

type c20result struct {
	Histories, Transitions int64
	Violations             []map[string]interface{}
	Samples                [][]string
}

func TestVerifC20(t *testing.T) {
	if os.Getenv("VERIF_C20") == "" {
		t.Skip("driver for /verif check C20")
	}
	registry.LoadRegistry()
	tier := os.Getenv("VERIF_TIER")
	shard, _ := strconv.Atoi(os.Getenv("VERIF_SHARD"))
	nsh, _ := strconv.Atoi(os.Getenv("VERIF_NSHARDS"))
	if nsh == 0 {
		nsh = 1
	}
	// base window: really run 3*4096+5 arrivals once (so the slice has been resliced and regrown the way
	// the running program's would be)
	mutex.Lock()
	flowRecords = nil
	mutex.Unlock()
	for i := 0; i < 3*maxFlowRecords+5; i++ {
		m, _ := c20message("arrive-two")
		addIPFIXMessage(m)
	}
	mutex.Lock()
	base := flowRecords
	mutex.Unlock()
	if len(base) != maxFlowRecords {
		fmt.Printf("C20VIOLATION %s\n", mustJSON(map[string]interface{}{"kind": "cap-exceeded", "detail": fmt.Sprintf("after %d arrivals the store holds %d entries", 3*maxFlowRecords+5, len(base)), "start": 0, "hist": []int{}}))
	}
	ops := c20Ops()
	N := len(ops)
	type plan struct{ start, depth int }
	plans := []plan{{0, 3}, {1, 3}, {maxFlowRecords - 1, 2}, {maxFlowRecords, 2}}
	if tier == "thorough" {
		plans = []plan{{0, 4}, {1, 3}, {2, 3}, {maxFlowRecords - 1, 3}, {maxFlowRecords, 3}}
	}
	if replay := os.Getenv("VERIF_C20_REPLAY"); replay != "" {
		var r struct {
			Start int
			Hist  []int
		}
		json.Unmarshal([]byte(replay), &r)
		s := c20start(r.Start, base)
		for i, o := range r.Hist {
			fmt.Printf("  step %d: %s\n", i, ops[o].name)
			if v := s.apply(o); v != nil {
				fmt.Printf("C20VIOLATION %s\n", mustJSON(map[string]interface{}{"kind": v.kind, "detail": v.detail, "start": r.Start, "hist": r.Hist}))
				return
			}
		}
		fmt.Println("replay: no violation")
		return
	}
	res := c20result{}
	begin := time.Now()
	counter := 0
	for _, pl := range plans {
		for L := 1; L <= pl.depth; L++ {
			total := 1
			for i := 0; i < L; i++ {
				total *= N
			}
			for n := 0; n < total; n++ {
				counter++
				if counter%nsh != shard {
					continue
				}
				h := make([]int, L)
				x := n
				for i := L - 1; i >= 0; i-- {
					h[i] = x % N
					x /= N
				}
				// large stores: a history must contain an arrival, a reset or end with a query to be worth its cost
				s := c20start(pl.start, base)
				res.Histories++
				for step, o := range h {
					res.Transitions++
					if v := s.apply(o); v != nil {
						if len(res.Violations) < 10 {
							var names []string
							for _, x := range h[:step+1] {
								names = append(names, ops[x].name)
							}
							res.Violations = append(res.Violations, map[string]interface{}{"kind": v.kind, "detail": fmt.Sprintf("start=%d entries, history %v: %s", pl.start, names, v.detail), "start": pl.start, "hist": h[:step+1]})
						}
						break
					}
				}
				if res.Histories%5000 == 1 && len(res.Samples) < 4 {
					var names []string
					for _, x := range h {
						names = append(names, ops[x].name)
					}
					res.Samples = append(res.Samples, append([]string{fmt.Sprintf("start=%d", pl.start)}, names...))
				}
			}
			if len(res.Violations) > 0 {
				break
			}
		}
	}
	_ = begin
	fmt.Printf("C20RESULT %s\n", mustJSON(res))
}

func mustJSON(v interface{}) string {
	b, _ := json.Marshal(v)
	return string(b)
}
