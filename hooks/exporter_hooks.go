//go:build verif

// Injected by /verif as pkg/exporter/zz_verif_hooks.go.
package exporter

// VerifSetSeq sets the sequence counter so that the 2^32 wrap is reachable.
func (ep *ExportingProcess) VerifSetSeq(v uint32) { ep.seqNumber = v }

// VerifSeq reads the sequence counter (no synchronisation; single-threaded harness use).
func (ep *ExportingProcess) VerifSeq() uint32 { return ep.seqNumber }

// VerifTemplateIDs lists the template ids remembered by the exporter.
func (ep *ExportingProcess) VerifTemplateIDs() []uint16 {
	ep.templateMutex.Lock()
	defer ep.templateMutex.Unlock()
	var out []uint16
	for id := range ep.templatesMap {
		out = append(out, id)
	}
	return out
}
