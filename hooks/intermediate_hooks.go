//go:build verif

// Injected by /verif as pkg/intermediate/zz_verif_hooks.go.
package intermediate

import (
	"time"
)

type VerifHeapItem struct {
	Key      FlowKey
	Index    int
	Active   time.Time
	Inactive time.Time
	// RecordSame is true when the item's flowRecord pointer is the map's entry for Key.
	RecordSame bool
	InMap      bool
}

type VerifFlow struct {
	Key           FlowKey
	ReadyToSend   bool
	Retries       int
	CorrFilled    bool
	ExtFilled     bool
	IsIPv4        bool
	ItemIndex     int // PriorityQueueItem.index (-1 when popped), -2 when PriorityQueueItem is nil
	ItemInHeapPos bool
	Record        *AggregationFlowRecord
}

type VerifSnap struct {
	Flows []VerifFlow
	Heap  []VerifHeapItem
}

// VerifSnapshotNoLock renders map and heap without taking a.mutex (caller guarantees exclusivity).
func (a *AggregationProcess) VerifSnapshotNoLock() VerifSnap {
	var s VerifSnap
	for pos, it := range a.expirePriorityQueue {
		h := VerifHeapItem{Index: it.index, Active: it.activeExpireTime, Inactive: it.inactiveExpireTime}
		if it.flowKey != nil {
			h.Key = *it.flowKey
			if rec, ok := a.flowKeyRecordMap[*it.flowKey]; ok {
				h.InMap = true
				h.RecordSame = rec == it.flowRecord
			}
		}
		_ = pos
		s.Heap = append(s.Heap, h)
	}
	for k, rec := range a.flowKeyRecordMap {
		f := VerifFlow{Key: k, ReadyToSend: rec.ReadyToSend, Retries: rec.waitForReadyToSendRetries,
			CorrFilled: rec.areCorrelatedFieldsFilled, ExtFilled: rec.areExternalFieldsFilled, IsIPv4: rec.isIPv4, Record: rec}
		if rec.PriorityQueueItem == nil {
			f.ItemIndex = -2
		} else {
			f.ItemIndex = rec.PriorityQueueItem.index
			i := rec.PriorityQueueItem.index
			f.ItemInHeapPos = i >= 0 && i < len(a.expirePriorityQueue) && a.expirePriorityQueue[i] == rec.PriorityQueueItem
		}
		s.Flows = append(s.Flows, f)
	}
	return s
}

func (a *AggregationProcess) VerifSnapshot() VerifSnap {
	a.mutex.Lock()
	defer a.mutex.Unlock()
	return a.VerifSnapshotNoLock()
}
