package main

import (
	"fmt"
	"sort"
	"strings"
	"time"

	"github.com/vmware/go-ipfix/pkg/entities"
	"github.com/vmware/go-ipfix/pkg/intermediate"
	"github.com/vmware/go-ipfix/pkg/verifshim/vsched"

	"verifharness/aggfix"
	"verifharness/common"
	"verifharness/xplore"
)

func init() { checks["C07"] = runC07 }

type c07op struct {
	name     string
	kind     byte // 'r', 'a', 's'
	key      int
	flowType uint8
	egress   uint8
	ingress  uint8
	from     int
	d        int
	omit     bool // the record lacks an element the aggregator needs: the ingest call fails part-way
}

type c07flow struct {
	act, inact time.Time
	ready      bool
	filled     bool
	retries    int
	first      int // reporter of the record that created the flow
	needed     bool // created as needing correlation
	corr       map[string]string
}

type c07sys struct {
	A, I    time.Duration
	nkeys   int
	maxRet  int
	ops     []c07op
	ap      *intermediate.AggregationProcess
	model   map[int]*c07flow
	keyIdx  map[intermediate.FlowKey]int
	count   uint32
}

func c07Ops(nkeys int, full bool) []c07op {
	var ops []c07op
	acts := [][2]uint8{{0, 0}, {1, 0}, {2, 0}, {0, 1}, {0, 2}, {0, 3}}
	if full {
		acts = nil
		for e := uint8(0); e < 4; e++ {
			for i := uint8(0); i < 4; i++ {
				acts = append(acts, [2]uint8{e, i})
			}
		}
	}
	an := []string{"none", "allow", "drop", "reject"}
	for k := 0; k < nkeys; k++ {
		ops = append(ops, c07op{name: fmt.Sprintf("Rec(k%d,intra)", k), kind: 'r', key: k, flowType: 1, from: aggfix.Both})
		ops = append(ops, c07op{name: fmt.Sprintf("Rec(k%d,toExternal)", k), kind: 'r', key: k, flowType: 3, from: aggfix.Src})
		ops = append(ops, c07op{name: fmt.Sprintf("Rec(k%d,fromExternal)", k), kind: 'r', key: k, flowType: 4, from: aggfix.Dst})
		for _, a := range acts {
			for _, from := range []int{aggfix.Src, aggfix.Dst} {
				fn := "src"
				if from == aggfix.Dst {
					fn = "dst"
				}
				ops = append(ops, c07op{name: fmt.Sprintf("Rec(k%d,inter,%s,egress=%s,ingress=%s)", k, fn, an[a[0]], an[a[1]]), kind: 'r', key: k, flowType: 2, egress: a[0], ingress: a[1], from: from})
			}
		}
	}
	for k := 0; k < nkeys; k++ {
		ops = append(ops, c07op{name: fmt.Sprintf("Rec(k%d,inter,dst,egress=allow,ingress=none, without httpVals: ingest fails part-way)", k), kind: 'r', key: k, flowType: 2, egress: 1, from: aggfix.Dst, omit: true},
			c07op{name: fmt.Sprintf("Rec(k%d,inter,src,egress=allow,ingress=none, without httpVals: ingest fails part-way)", k), kind: 'r', key: k, flowType: 2, egress: 1, from: aggfix.Src, omit: true})
	}
	ops = append(ops, c07op{name: "Adv(5)", kind: 'a', d: 5}, c07op{name: "Adv(7)", kind: 'a', d: 7}, c07op{name: "Scan", kind: 's'})
	return ops
}

func newC07(nkeys, maxRet int, ops []c07op) *c07sys {
	vsched.BeginSeq(t0)
	intermediate.MaxRetries = maxRet
	A, I := 4*unit, 6*unit
	ap, err := intermediate.InitAggregationProcess(intermediate.AggregationInput{
		MessageChan: make(chan *entities.Message), WorkerNum: 1, CorrelateFields: aggfix.CorrelateFields,
		AggregateElements: aggfix.Elements(), ActiveExpiryTimeout: A, InactiveExpiryTimeout: I,
	})
	if err != nil {
		panic(err)
	}
	s := &c07sys{A: A, I: I, nkeys: nkeys, maxRet: maxRet, ops: ops, ap: ap, model: map[int]*c07flow{}, keyIdx: map[intermediate.FlowKey]int{}}
	for i := 0; i < nkeys; i++ {
		s.keyIdx[aggfix.Keys[i].FlowKey()] = i
	}
	return s
}

func (s *c07sys) Close() { vsched.EndSeq() }

func c07required(op c07op) bool {
	return op.flowType == 2 && op.egress != 2 && op.egress != 3 && op.ingress != 3
}

// correlate-field values (as strings) of a record built for op
func c07spec(op c07op, n uint32) aggfix.Spec {
	sp := aggfix.Spec{Key: op.key, FlowType: op.flowType, Egress: op.egress, Ingress: op.ingress, From: op.from,
		Start: 900, End: 1000 + n, PktTot: uint64(n) * 10, PktDelta: 10, OctTot: uint64(n) * 1000, OctDelta: 1000, TCPState: "ESTABLISHED"}
	switch op.from {
	case aggfix.Src:
		sp.SrcNS, sp.SrcNode = "ns-s", "node-s"
	case aggfix.Dst:
		sp.Layout = 1 // the destination node's exporter lists its fields in a different order
		sp.DstNS, sp.DstNode, sp.SvcPort, sp.IngressPrio = "ns-d", "node-d", 8080, -7 // (priorities may be negative)
		sp.End = 950 + n // the two nodes' clocks and export cycles are independent: this one's end times lie before the other's
		if !aggfix.Keys[op.key].V6 {
			sp.ClusterIP = "10.96.0.10"
		} else {
			sp.ClusterIP = "fd00::10"
		}
	default:
		sp.SrcNS, sp.SrcNode, sp.DstNS, sp.DstNode = "ns-s", "node-s", "ns-d", "node-d"
	}
	return sp
}

func corrValues(r entities.Record) map[string]string {
	out := map[string]string{}
	for _, f := range aggfix.CorrelateFields {
		e, _, ok := r.GetInfoElementWithValue(f)
		if !ok {
			continue
		}
		out[f] = common.ImplValue(e)
	}
	return out
}

func emptyCorr(v string) bool {
	switch v {
	case "str:", "u8:0", "u16:0", "i32:0", "ip4:00000000", "ip6:00000000000000000000000000000000":
		return true
	}
	return false
}

func (s *c07sys) Apply(opi int) (v *xplore.Violation) {
	defer func() {
		if r := recover(); r != nil {
			v = xplore.V("panic", "%s panicked: %v", s.ops[opi].name, r)
		}
	}()
	op := s.ops[opi]
	now := vsched.S.Now
	switch op.kind {
	case 'a':
		vsched.SeqAdvance(time.Duration(op.d) * unit)
	case 'r':
		if _, held := s.model[op.key]; op.omit && !held {
			return nil // the faulty record is only meaningful against an existing flow
		}
		s.count++
		sp := c07spec(op, s.count)
		sp.OmitHTTPVals = op.omit
		rec := aggfix.Record(sp)
		incoming := corrValues(rec)
		err := s.ap.AggregateMsgByFlowKey(aggfix.Msg(rec))
		if err != nil && !op.omit {
			return xplore.V("aggregate-error", "%s: %v", op.name, err)
		}
		if op.omit {
			// both sides have now been received if this record came from the other node: the flow must be
			// ready and filled whether or not the statistics could be merged; deadlines follow the implementation
			f := s.model[op.key]
			if !f.ready && op.from != f.first {
				for name, val := range incoming {
					if !emptyCorr(val) {
						f.corr[name] = val
					}
				}
				f.ready, f.filled = true, true
			}
			snap := s.ap.VerifSnapshot()
			for _, h := range snap.Heap {
				if s.keyIdx[h.Key] == op.key {
					f.act, f.inact = h.Active, h.Inactive
				}
			}
			break
		}
		req := c07required(op)
		f, ok := s.model[op.key]
		if !ok {
			f = &c07flow{act: now.Add(s.A), inact: now.Add(s.I), first: op.from, corr: incoming, needed: req}
			f.ready = !req
			f.filled = f.ready && op.flowType != 2
			s.model[op.key] = f
		} else {
			f.inact = now.Add(s.I)
			if req {
				if !f.ready && op.from != f.first {
					for name, val := range incoming {
						if !emptyCorr(val) {
							f.corr[name] = val
						}
					}
					f.ready, f.filled = true, true
				}
			} else {
				// the flow is now known not to need correlation (intra-node, to-external, denied at
				// egress or rejected at ingress): ready at once
				f.ready = true
			}
		}
	case 's':
		var fired []int
		var firedNotReady []int
		err := s.ap.ForAllExpiredFlowRecordsDo(func(key intermediate.FlowKey, rec *intermediate.AggregationFlowRecord) error {
			k := s.keyIdx[key]
			fired = append(fired, k)
			if !rec.ReadyToSend {
				firedNotReady = append(firedNotReady, k)
			}
			return nil
		})
		if err != nil {
			return xplore.V("scan-error", "%s: %v", op.name, err)
		}
		if len(firedNotReady) > 0 {
			return xplore.V("exported-unready", "%s: flows %v were handed to the callback with ReadyToSend=false", op.name, firedNotReady)
		}
		seen := map[int]bool{}
		for _, k := range fired {
			if seen[k] {
				return xplore.V("callback-twice", "%s: k%d exported twice in one scan", op.name, k)
			}
			seen[k] = true
		}
		for k, f := range s.model {
			dl := minT(f.act, f.inact)
			due, tie := dl.Before(now), dl.Equal(now)
			switch {
			case seen[k] && !f.ready:
				return xplore.V("exported-uncorrelated", "%s: flow k%d needs correlation and only one side was seen, yet it was exported", op.name, k)
			case seen[k] && !due && !tie:
				return xplore.V("callback-early", "%s: flow k%d exported %d units before its deadline", op.name, k, rel(dl, now))
			case !seen[k] && due && f.ready:
				return xplore.V("withheld-ready", "%s: flow k%d is ready (no correlation pending) and %d units past its deadline but was not exported; model %s", op.name, k, -rel(dl, now), s.desc(now))
			}
			if tie {
				continue // boundary: adopt below
			}
			if !due {
				continue
			}
			if f.ready {
				if f.inact.Before(now) {
					delete(s.model, k)
				} else {
					f.act = now.Add(s.A)
				}
			} else {
				f.retries++
				if f.retries > s.maxRet {
					delete(s.model, k)
				} else {
					f.act, f.inact = now.Add(s.A), now.Add(s.I)
				}
			}
		}
	}
	// compare with the implementation
	now = vsched.S.Now
	snap := s.ap.VerifSnapshot()
	c6 := &c06sys{keyIdx: s.keyIdx}
	heapOf, sv := c6.structural(snap)
	if sv != nil {
		sv.Detail = "after " + op.name + ": " + sv.Detail
		return sv
	}
	implFlows := map[int]intermediate.VerifFlow{}
	for _, f := range snap.Flows {
		implFlows[s.keyIdx[f.Key]] = f
	}
	// boundary adoption: a flow whose deadline equals now may have gone either way in a scan
	if op.kind == 's' {
		for k, f := range s.model {
			if minT(f.act, f.inact).Equal(now) {
				if imf, ok := implFlows[k]; !ok {
					delete(s.model, k)
				} else {
					h := heapOf[k]
					f.act, f.inact, f.retries = h.act, h.inact, imf.Retries
				}
			}
		}
	}
	if len(implFlows) != len(s.model) {
		return xplore.V("flow-set", "after %s: implementation holds %d flows, model %s", op.name, len(implFlows), s.desc(now))
	}
	for k, f := range s.model {
		imf, ok := implFlows[k]
		if !ok {
			return xplore.V("flow-set", "after %s: flow k%d missing; model %s", op.name, k, s.desc(now))
		}
		if imf.ReadyToSend != f.ready {
			if f.ready {
				return xplore.V("not-ready", "after %s: flow k%d should be ready for export (correlated, or known not to need correlation) but ReadyToSend=false; model %s", op.name, k, s.desc(now))
			}
			return xplore.V("ready-early", "after %s: flow k%d needs correlation and only its %s side was seen, but ReadyToSend=true", op.name, k, []string{"both", "source", "destination"}[f.first])
		}
		if imf.CorrFilled != f.filled || s.ap.AreCorrelatedFieldsFilled(*imf.Record) != f.filled {
			return xplore.V("filled-flag", "after %s: flow k%d AreCorrelatedFieldsFilled=%v, expected %v", op.name, k, imf.CorrFilled, f.filled)
		}
		if imf.Retries != f.retries {
			return xplore.V("retries", "after %s: flow k%d retry counter %d, expected %d (max %d)", op.name, k, imf.Retries, f.retries, s.maxRet)
		}
		h := heapOf[k]
		if !h.act.Equal(f.act) || !h.inact.Equal(f.inact) {
			return xplore.V("deadline-mismatch", "after %s: k%d deadlines (%d,%d), model (%d,%d)", op.name, k, rel(h.act, now), rel(h.inact, now), rel(f.act, now), rel(f.inact, now))
		}
		got := corrValues(imf.Record.Record)
		for name, want := range f.corr {
			if got[name] != want {
				return xplore.V("correlated-field", "after %s: flow k%d field %s = %s, expected %s (merged record must carry every non-empty correlated field of either side)", op.name, k, name, got[name], want)
			}
		}
	}
	return nil
}

func (s *c07sys) desc(now time.Time) string {
	var ks []int
	for k := range s.model {
		ks = append(ks, k)
	}
	sort.Ints(ks)
	var sb strings.Builder
	for _, k := range ks {
		f := s.model[k]
		fmt.Fprintf(&sb, "k%d{ready=%v filled=%v retries=%d first=%d dl=(%d,%d)} ", k, f.ready, f.filled, f.retries, f.first, rel(f.act, now), rel(f.inact, now))
	}
	return sb.String()
}

func (s *c07sys) Canon() string {
	now := vsched.S.Now
	snap := s.ap.VerifSnapshotNoLock()
	c6 := &c06sys{keyIdx: s.keyIdx}
	base := c6.Canon2(snap, now)
	var parts []string
	for _, f := range snap.Flows {
		cv := corrValues(f.Record.Record)
		var names []string
		for n := range cv {
			names = append(names, n)
		}
		sort.Strings(names)
		var sb strings.Builder
		fmt.Fprintf(&sb, "k%d r=%v f=%v n=%d", s.keyIdx[f.Key], f.ReadyToSend, f.CorrFilled, f.Retries)
		for _, n := range names {
			fmt.Fprintf(&sb, " %s", cv[n])
		}
		parts = append(parts, sb.String())
	}
	sort.Strings(parts)
	return base + "#" + strings.Join(parts, ";")
}

func c07Configs(tier string) []*xplore.Config {
	type cf struct {
		nkeys, maxRet int
		full          bool
		hd, sd        int
	}
	cfs := []cf{{1, 1, false, 4, 14}, {1, 2, false, 3, 0}, {1, 1, true, 3, 0}} // the last: all 16 action pairs, shallow
	if tier == "thorough" {
		cfs = []cf{{1, 1, false, 5, 20}, {1, 2, true, 4, 0}, {1, 2, false, 4, 20}, {2, 1, false, 3, 0}}
	}
	var out []*xplore.Config
	for _, c := range cfs {
		c := c
		ops := c07Ops(c.nkeys, c.full)
		out = append(out, &xplore.Config{
			Name: fmt.Sprintf("keys=%d,maxRetries=%d,fullActions=%v", c.nkeys, c.maxRet, c.full), NumOps: len(ops),
			OpName:    func(i int) string { return ops[i].name },
			New:       func() xplore.Sys { return newC07(c.nkeys, c.maxRet, ops) },
			HistDepth: c.hd, StateDepth: c.sd, MaxStates: 300000,
			Interesting: func(cn string) bool { return strings.Contains(cn, "r=false") || strings.Contains(cn, "f=true") },
		})
	}
	return out
}

func runC07(tier, replay string) int {
	rep := common.NewReporter("C07")
	if tier == "replay" {
		return e1Replay("C07", replay, append(c07Configs("thorough"), c07Configs("quick")...))
	}
	tot, ok := runE1(rep, c07Configs(tier))
	if tot == nil {
		if ok {
			return 0
		}
		return 2
	}
	ev := &common.Evidence{PropertyID: "C07", Tier: tier}
	ev.Coverage = common.Coverage{
		"states": tot.States, "transitions": tot.Trans, "traces_validated_against_impl": tot.Traces, "samples": tot.Samples,
		"evaluations": tot.Traces, "distinct_nontrivial": tot.Interesting,
		"rule":       "pass (a): every history over {record(key, flow type, egress action, ingress action, reporting node), Adv(5), Adv(7), Scan} up to hist_depth under the virtual clock, each step compared with the correlation model (ready / filled / retry counter / deadlines / merged correlate fields) through the snapshot hook; pass (b): BFS de-duplicated on (heap layout with relative deadlines, per-flow ready/filled/retries/correlate values) to closure. distinct_nontrivial = distinct reachable states with a withheld or a correlated flow",
		"exhaustive": tot.Exhaustive && tot.ClosedAll, "closed": tot.ClosedAll, "per_config": tot.PerCfg,
	}
	ev.Assumptions = []string{"a record showing that the flow needs no correlation (intra-node, to-external, egress drop/reject, ingress reject) makes an already held flow ready at once", "the retry bound is exactly MaxRetries re-arms"}
	ev.WallS = common.Since(rep.Start)
	ev.Violations = rep.Violations()
	common.WriteEvidence(ev)
	return rep.Finish()
}
