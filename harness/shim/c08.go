package main

import (
	"bytes"
	"fmt"
	"net"
	"strings"
	"time"

	"github.com/vmware/go-ipfix/pkg/entities"
	"github.com/vmware/go-ipfix/pkg/exporter"
	"github.com/vmware/go-ipfix/pkg/registry"
	"github.com/vmware/go-ipfix/pkg/verifshim/vnet"
	"github.com/vmware/go-ipfix/pkg/verifshim/vsched"

	"verifharness/common"
	"verifharness/refcodec"
	"verifharness/xplore"
)

func init() {
	checks["C08"] = runC08
	checks["C09"] = runC09
}

// ---------- shared exporter session fixture ----------

type expTmpl struct {
	names []string
	ents  []uint32
	ies   []*entities.InfoElement
	ref   refcodec.Template
}

func mkTmpl(id uint16, names []string, ents []uint32) *expTmpl {
	t := &expTmpl{names: names, ents: ents}
	t.ref.ID = id
	for i, n := range names {
		ie, err := registry.GetInfoElement(n, ents[i])
		if n == "verifFixedOctets8" {
			// a user-defined enterprise element: octetArray with a fixed length of 8
			ie, err = entities.NewInfoElement(n, 901, entities.OctetArray, ents[i], 8), nil
		}
		if err != nil {
			panic(err)
		}
		t.ies = append(t.ies, ie)
		t.ref.Fields = append(t.ref.Fields, refcodec.FieldSpec{ID: ie.ElementId, PEN: ie.EnterpriseId, Len: ie.Len})
	}
	return t
}

type expSession struct {
	ep      *exporter.ExportingProcess
	conn    *vnet.FakeConn
	domain  uint32
	proto   string
	seq     uint32 // model: sequence counter
	sent    map[uint16]bool // model: template ids written to the wire
	nWrites int
}

func newExpSession(proto string, domain uint32, startSeq uint32, now time.Time, jsonMode ...bool) *expSession {
	vsched.BeginSeq(now)
	addr := "127.0.0.1:4739"
	if proto == "tcp" {
		if _, err := vnet.Listen("tcp", addr); err != nil {
			panic(err)
		}
	}
	ep, err := exporter.InitExportingProcess(exporter.ExporterInput{CollectorAddress: addr, CollectorProtocol: proto, ObservationDomainID: domain, TempRefTimeout: 600, SendJSONRecord: len(jsonMode) > 0 && jsonMode[0]})
	if err != nil {
		panic(err)
	}
	var conn *vnet.FakeConn
	for _, c := range vnet.Conns() {
		if strings.Contains(c.Name, "client") {
			conn = c
		}
	}
	if startSeq != 0 {
		ep.VerifSetSeq(startSeq)
	}
	return &expSession{ep: ep, conn: conn, domain: domain, proto: proto, seq: startSeq, sent: map[uint16]bool{}}
}

// newWrites returns the Write calls since the last look.
func (x *expSession) newWrites() [][]byte {
	var out [][]byte
	for _, s := range x.conn.Writes[x.nWrites:] {
		out = append(out, s.Data)
	}
	x.nWrites = len(x.conn.Writes)
	return out
}

func tmplSet(t *expTmpl) entities.Set {
	set := entities.NewSet(false)
	if err := set.PrepareSet(entities.Template, t.ref.ID); err != nil {
		panic(err)
	}
	els := make([]entities.InfoElementWithValue, len(t.ies))
	for i, ie := range t.ies {
		e, err := entities.DecodeAndCreateInfoElementWithValue(ie, nil)
		if err != nil {
			// signed64 template elements cannot be built this way in the pinned tree; build directly
			e = entities.NewSigned64InfoElement(ie, 0)
		}
		els[i] = e
	}
	if err := set.AddRecord(els, t.ref.ID); err != nil {
		panic(err)
	}
	return set
}

// value for record r, field f of template t: (library element, reference raw bytes)
func expValue(ie *entities.InfoElement, r, f int, strLen int) (entities.InfoElementWithValue, []byte) {
	switch ie.DataType {
	case entities.Unsigned8:
		v := uint8(r*7 + f + 1)
		return entities.NewUnsigned8InfoElement(ie, v), []byte{v}
	case entities.Unsigned16:
		v := uint16(r*257 + f + 1)
		return entities.NewUnsigned16InfoElement(ie, v), []byte{byte(v >> 8), byte(v)}
	case entities.Unsigned32:
		v := uint32(r*65537 + f + 1)
		return entities.NewUnsigned32InfoElement(ie, v), []byte{byte(v >> 24), byte(v >> 16), byte(v >> 8), byte(v)}
	case entities.Unsigned64:
		v := uint64(r)<<33 + uint64(f) + 1
		b := make([]byte, 8)
		for i := 0; i < 8; i++ {
			b[i] = byte(v >> (56 - 8*i))
		}
		return entities.NewUnsigned64InfoElement(ie, v), b
	case entities.Ipv4Address:
		b := []byte{10, byte(r >> 8), byte(r), byte(f + 1)}
		return entities.NewIPAddressInfoElement(ie, net.IP(b)), b
	case entities.Ipv6Address:
		b := make([]byte, 16)
		b[0], b[1], b[14], b[15] = 0x20, 0x01, byte(r), byte(f+1)
		return entities.NewIPAddressInfoElement(ie, net.IP(b)), b
	case entities.MacAddress:
		b := []byte{2, 0, 0, byte(r >> 8), byte(r), byte(f)}
		return entities.NewMacAddressInfoElement(ie, net.HardwareAddr(b)), b
	case entities.String:
		b := bytes.Repeat([]byte{byte('a' + (r+f)%26)}, strLen)
		return entities.NewStringInfoElement(ie, string(b)), b
	case entities.OctetArray:
		n := strLen
		if ie.Len != entities.VariableLength {
			n = int(ie.Len)
		}
		b := bytes.Repeat([]byte{byte(0x80 + r + f)}, n)
		return entities.NewOctetArrayInfoElement(ie, b), b
	}
	panic(fmt.Sprintf("expValue: type %d", ie.DataType))
}

// dataSet builds a data set of n records and the reference values.
func dataSet(t *expTmpl, n int, strLen int, addVariant int) (entities.Set, [][][]byte) {
	set := entities.NewSet(false)
	if err := set.PrepareSet(entities.Data, t.ref.ID); err != nil {
		panic(err)
	}
	var ref [][][]byte
	for r := 0; r < n; r++ {
		els := make([]entities.InfoElementWithValue, len(t.ies))
		raws := make([][]byte, len(t.ies))
		for f, ie := range t.ies {
			els[f], raws[f] = expValue(ie, r, f, strLen)
		}
		var err error
		switch addVariant {
		case 1:
			err = set.AddRecordV2(els, t.ref.ID)
		case 2:
			err = set.AddRecordWithExtraElements(els, 2, t.ref.ID)
		default:
			err = set.AddRecord(els, t.ref.ID)
		}
		if err != nil {
			panic(err)
		}
		ref = append(ref, raws)
	}
	return set, ref
}

// checkMessage verifies one transmitted message against the session model. isTemplate / records
// describe what was handed to SendSet.
func (x *expSession) checkMessage(b []byte, ret int, now time.Time, t *expTmpl, isTemplate bool, ref [][][]byte) *xplore.Violation {
	if ret != len(b) {
		return xplore.V("byte-count", "SendSet returned %d, the message written has %d bytes", ret, len(b))
	}
	p, err := refcodec.StrictCheck(b)
	if err != nil {
		return xplore.V("malformed", "transmitted message is not well-formed: %v", err)
	}
	if len(b) > 65535 {
		return xplore.V("oversized", "transmitted message has %d bytes", len(b))
	}
	if p.Header.Domain != x.domain {
		return xplore.V("domain", "observation domain %d, configured %d", p.Header.Domain, x.domain)
	}
	if want := uint32(now.Unix()); p.Header.ExportTime != want {
		return xplore.V("export-time", "export time %d, wall clock second is %d", p.Header.ExportTime, want)
	}
	if p.Header.Seq != x.seq {
		return xplore.V("sequence", "sequence number %d, expected %d (data records transmitted so far, mod 2^32)", p.Header.Seq, x.seq)
	}
	if isTemplate {
		if p.SetID != 2 {
			return xplore.V("set-id", "template message with set id %d", p.SetID)
		}
		tt, rest, _, err := refcodec.ParseTemplateBody(p.Body)
		if err != nil || len(rest) != 0 {
			return xplore.V("template-body", "template body does not parse exactly: %v rest=%d", err, len(rest))
		}
		if tt.ID != t.ref.ID || fmt.Sprint(tt.Fields) != fmt.Sprint(t.ref.Fields) {
			return xplore.V("template-body", "template on the wire %v, given %v", tt, t.ref)
		}
		return nil
	}
	if p.SetID != t.ref.ID {
		return xplore.V("set-id", "data message with set id %d, template id %d", p.SetID, t.ref.ID)
	}
	recs, pad, err := refcodec.ParseDataBody(p.Body, t.ref.Fields)
	if err != nil || pad != 0 {
		return xplore.V("data-body", "data body does not parse exactly under the template: %v padding=%d", err, pad)
	}
	if len(recs) != len(ref) {
		return xplore.V("record-count", "%d records on the wire, %d given", len(recs), len(ref))
	}
	for i := range recs {
		for j := range recs[i] {
			if !bytes.Equal(recs[i][j], ref[i][j]) {
				return xplore.V("altered-value", "record %d field %d (%s) on the wire %x, value given %x", i, j, t.names[j], short(recs[i][j]), short(ref[i][j]))
			}
		}
	}
	return nil
}

func short(b []byte) []byte {
	if len(b) > 24 {
		return b[:24]
	}
	return b
}

// ---------- C08 ----------

type c08op struct {
	name string
	kind byte // 't' template, 'd' data, 'a' advance
	t    int
	n    int
}

type c08sys struct {
	x   *expSession
	ops []c08op
	ts  []*expTmpl
}

func c08Tmpls() []*expTmpl {
	return []*expTmpl{
		mkTmpl(256, []string{"sourceIPv4Address", "destinationTransportPort", "packetDeltaCount"}, []uint32{0, 0, 0}),
		mkTmpl(257, []string{"interfaceName", "protocolIdentifier", "sourcePodName"}, []uint32{0, 0, registry.AntreaEnterpriseID}),
	}
}

func c08Ops() []c08op {
	fit := (65535 - 20) / 14
	return []c08op{
		{"Tmpl(a)", 't', 0, 0}, {"Tmpl(b)", 't', 1, 0},
		{"Data(a,1)", 'd', 0, 1}, {"Data(a,2)", 'd', 0, 2}, {"Data(a,3)", 'd', 0, 3}, {fmt.Sprintf("Data(a,%d=fit)", fit), 'd', 0, fit},
		{"Data(b,1)", 'd', 1, 1}, {"Data(b,2)", 'd', 1, 2}, {"Data(b,3)", 'd', 1, 3},
		{"AdvClock(1s)", 'a', 0, 0},
	}
}

func (s *c08sys) Close() { vsched.EndSeq() }

func (s *c08sys) Apply(opi int) (v *xplore.Violation) {
	defer func() {
		if r := recover(); r != nil {
			v = xplore.V("panic", "%s panicked: %v", s.ops[opi].name, r)
		}
	}()
	op := s.ops[opi]
	x := s.x
	if op.kind == 'a' {
		vsched.SeqAdvance(time.Second)
		return nil
	}
	t := s.ts[op.t]
	var set entities.Set
	var ref [][][]byte
	if op.kind == 't' {
		set = tmplSet(t)
	} else {
		set, ref = dataSet(t, op.n, 5, opi%3)
		x.seq += uint32(op.n)
	}
	now := vsched.S.Now
	n, err := x.ep.SendSet(set)
	if err != nil {
		return xplore.V("unexpected-error", "%s: SendSet failed: %v", op.name, err)
	}
	ws := x.newWrites()
	if len(ws) != 1 {
		return xplore.V("message-count", "%s: one successful SendSet produced %d writes on the connection", op.name, len(ws))
	}
	if v := x.checkMessage(ws[0], n, now, t, op.kind == 't', ref); v != nil {
		v.Detail = op.name + ": " + v.Detail
		return v
	}
	if op.kind == 't' {
		x.sent[t.ref.ID] = true
	}
	if got := x.ep.VerifSeq(); got != x.seq {
		return xplore.V("sequence-counter", "%s: internal sequence counter %d, expected %d", op.name, got, x.seq)
	}
	return nil
}

func (s *c08sys) Canon() string {
	return fmt.Sprintf("seq=%d sent=%v t=%d", s.x.ep.VerifSeq()-0, s.x.ep.VerifTemplateIDs(), vsched.S.Now.Unix())
}

func c08Configs(tier string) []*xplore.Config {
	ops := c08Ops()
	ts := c08Tmpls()
	type cf struct {
		proto string
		seq   uint32
		now   int64
		hd    int
	}
	var cfs []cf
	hd := 5
	if tier == "thorough" {
		hd = 6
	}
	for _, proto := range []string{"tcp", "udp"} {
		for i, sq := range []uint32{0, 1 << 31, 1<<32 - 3, 1<<32 - 1} {
			now := []int64{1, 1_700_000_000, 1<<32 - 2, 1_700_000_000}[i]
			d := hd
			if sq != 0 && sq != 1<<32-3 {
				d = hd - 1
			}
			if tier == "thorough" && sq == 1<<32-3 && proto == "tcp" {
				d = 7 // the wrap-around start is the one explored deepest
			}
			cfs = append(cfs, cf{proto, sq, now, d})
		}
	}
	enabled := func(h []int, op int) bool {
		if ops[op].kind != 'd' {
			return true
		}
		for _, o := range h {
			if ops[o].kind == 't' && ops[o].t == ops[op].t {
				return true
			}
		}
		return false
	}
	var out []*xplore.Config
	for _, c := range cfs {
		c := c
		out = append(out, &xplore.Config{
			Name: fmt.Sprintf("%s,startSeq=%d,now=%d", c.proto, c.seq, c.now), NumOps: len(ops), OpName: func(i int) string { return ops[i].name },
			New: func() xplore.Sys {
				dom := uint32(4711)
				if c.proto == "udp" {
					dom = 0 // 0 is a legal observation domain id like any other
				}
				return &c08sys{x: newExpSession(c.proto, dom, c.seq, time.Unix(c.now, 500_000_000)), ops: ops, ts: ts}
			},
			Enabled: enabled, HistDepth: c.hd,
		})
	}
	return out
}

func runC08(tier, replay string) int {
	rep := common.NewReporter("C08")
	if tier == "replay" {
		return e1Replay("C08", replay, c08Configs("thorough"))
	}
	tot, ok := runE1(rep, c08Configs(tier))
	if tot == nil {
		if ok {
			return 0
		}
		return 2
	}
	ev := &common.Evidence{PropertyID: "C08", Tier: tier}
	ev.Coverage = common.Coverage{
		"states": tot.Traces, "transitions": tot.Trans, "traces_validated_against_impl": tot.Traces, "samples": tot.Samples,
		"evaluations": tot.Traces, "distinct_nontrivial": tot.Traces,
		"rule":       "every history of successful sends over {Tmpl(a), Tmpl(b), Data(a, n in {1,2,3,largest that fits}), Data(b, n in {1,2,3}), AdvClock(1s)} (data only after its template) up to hist_depth, from start counters {0, 2^31, 2^32-3, 2^32-1} and virtual clocks {1, 1.7e9, 2^32-2}, over tcp and udp fake connections; every message written to the connection is parsed by the independent refcodec and compared with the session model (sequence number mod 2^32, domain, export second, exact byte count, one write per send). states = histories (each ends in a distinct (counter, clock, log) state by construction)",
		"exhaustive": tot.Exhaustive, "per_config": tot.PerCfg,
	}
	ev.Assumptions = []string{"only successful sends (the property's quantifier); failed attempts are C09", "export time is compared modulo 2^32 (the field is 32 bits wide)", "background refresher/checker goroutines are parked (sequential mode); their interaction is C14"}
	ev.WallS = common.Since(rep.Start)
	ev.Violations = rep.Violations()
	common.WriteEvidence(ev)
	return rep.Finish()
}
