package main

import (
	"encoding/json"
	"fmt"
	"os"
	"runtime"
	"strings"
	"time"

	"github.com/vmware/go-ipfix/pkg/verifshim/vsched"

	"verifharness/common"
)

// e2Scenario is one closed system explored under the controlled scheduler.
type e2Scenario struct {
	Name  string
	Sc    *vsched.Scenario
	Bound int // preemption bound for this tier (<0 unbounded)
	Delay bool // Bound counts delays (every deviation from the default scheduler) instead of preemptions
}

type e2ShardResult struct {
	Scenario string
	Execs    int64
	Points   int64
	Steps    int64
	MaxDepth int
	Outcomes map[uint64]int64
	Problems []vsched.Found
	Capped   string
	Sample   []string
	// FirstRun: a problem seen in the very first execution of this (fresh) process and not in the second run
	// of the same schedule: state in package-level variables of the code under test outlives an execution
	// (a cache filled by the first one). Every shard is a fresh process and reports it independently.
	FirstRun *vsched.Problem
}

type e2Totals struct {
	Execs, Points, Steps int64
	Outcomes             int
	PerScenario          []interface{}
	Samples              []interface{}
	Exhaustive           bool
}

// confirm re-runs a counterexample 5 times; all must reproduce the same problem kind.
func e2Confirm(sc *vsched.Scenario, f vsched.Found) (bool, string) {
	for i := 0; i < 5; i++ {
		o := sc.Run(f.Choices)
		p := sc.Judge(o)
		if p == nil {
			return false, fmt.Sprintf("replay %d of the recorded schedule produced no problem (first run: %s)", i, f.Problem.Kind)
		}
		if p.Kind != f.Problem.Kind {
			return false, fmt.Sprintf("replay %d produced %s, first run produced %s", i, p.Kind, f.Problem.Kind)
		}
	}
	return true, ""
}

// runE2 explores all scenarios; sharded over processes (the scheduler is process-global).
func runE2(rep *common.Reporter, scs []*e2Scenario, deadline time.Duration) (*e2Totals, bool) {
	// debugging knobs (not used by the registered commands)
	if only := os.Getenv("VERIF_ONLY"); only != "" {
		var f []*e2Scenario
		for _, s := range scs {
			if strings.Contains(s.Name, only) {
				f = append(f, s)
			}
		}
		scs = f
	}
	if b := os.Getenv("VERIF_BOUND"); b != "" {
		for _, s := range scs {
			fmt.Sscan(b, &s.Bound)
		}
	}
	if d := os.Getenv("VERIF_DEADLINE_S"); d != "" {
		var n int
		fmt.Sscan(d, &n)
		deadline = time.Duration(n) * time.Second
	}
	shard, nsh := common.ShardInfo()
	if nsh > 0 {
		for _, s := range scs {
			// determinism: the default schedule twice
			a, b := s.Sc.Run(nil), s.Sc.Run(nil)
			if strings.Join(a.Log, "\n") != strings.Join(b.Log, "\n") || len(a.Points) != len(b.Points) {
				fmt.Fprintf(os.Stderr, "NONDETERMINISM in scenario %s: two runs of the default schedule differ\n%v\n%v\n", s.Name, a.Log, b.Log)
				os.Exit(2)
			}
			var first *vsched.Problem
			if pa, pb := s.Sc.Judge(a), s.Sc.Judge(b); pa != nil && pb == nil {
				first = pa
			}
			cfg := vsched.ExploreConfig{Bound: s.Bound, Delay: s.Delay, Shard: shard, NShards: nsh, SplitDepth: 4 * nsh}
			if deadline > 0 {
				cfg.Deadline = time.Now().Add(deadline)
			}
			c := vsched.Explore(s.Sc, cfg)
			common.EmitResult(e2ShardResult{s.Name, c.Execs, c.Points, c.Steps, c.MaxDepth, c.Outcomes, c.Problems, c.Capped, c.SampleTrace, first})
		}
		return nil, true
	}
	byName := map[string]*e2Scenario{}
	for _, s := range scs {
		byName[s.Name] = s
	}
	type agg struct {
		execs, points, steps int64
		maxDepth             int
		outcomes             map[uint64]int64
		capped               []string
		problems             []vsched.Found
		sample               []string
		first                map[string]int
		firstDetail          map[string]string
	}
	m := map[string]*agg{}
	ok := common.RunShards(runtime.NumCPU(), nil, func(sh int, raw json.RawMessage) {
		var r e2ShardResult
		if err := json.Unmarshal(raw, &r); err != nil {
			fmt.Println("bad shard result", err)
			return
		}
		a := m[r.Scenario]
		if a == nil {
			a = &agg{outcomes: map[uint64]int64{}}
			m[r.Scenario] = a
		}
		a.execs += r.Execs
		a.points += r.Points
		a.steps += r.Steps
		if r.MaxDepth > a.maxDepth {
			a.maxDepth = r.MaxDepth
		}
		for k, v := range r.Outcomes {
			a.outcomes[k] += v
		}
		if r.Capped != "" {
			a.capped = append(a.capped, r.Capped)
		}
		a.problems = append(a.problems, r.Problems...)
		if r.FirstRun != nil {
			if a.first == nil {
				a.first, a.firstDetail = map[string]int{}, map[string]string{}
			}
			a.first[r.FirstRun.Kind]++
			a.firstDetail[r.FirstRun.Kind] = r.FirstRun.Detail
		}
		if len(r.Sample) > 0 {
			a.sample = r.Sample
		}
	})
	if !ok {
		return nil, false
	}
	t := &e2Totals{Exhaustive: true}
	infra := false
	for _, s := range scs {
		a := m[s.Name]
		if a == nil {
			continue
		}
		t.Execs += a.execs
		t.Points += a.points
		t.Steps += a.steps
		t.Outcomes += len(a.outcomes)
		if len(a.capped) > 0 {
			t.Exhaustive = false
		}
		seen := map[string]bool{}
		nviol := 0
		for _, f := range a.problems {
			k := f.Problem.Kind + "|" + firstLine(f.Problem.Detail)
			if seen[k] {
				continue
			}
			seen[k] = true
			if f.Problem.Kind == "NONDETERMINISM" {
				fmt.Fprintf(os.Stderr, "NONDETERMINISM in %s: %s\n", s.Name, f.Problem.Detail)
				infra = true
				continue
			}
			if _, known := rep.CheckKnown(f.Problem.Kind, f.Problem.Detail); known {
				continue
			}
			if okc, why := e2Confirm(s.Sc, f); !okc {
				fmt.Fprintf(os.Stderr, "counterexample in %s does not reproduce: %s\n", s.Name, why)
				infra = true
				continue
			}
			nviol++
			rep.Report(s.Name, f.Problem.Kind, f.Problem.Detail, map[string]interface{}{"choices": f.Choices, "log": f.Log}, nil)
		}
		// problems that only the first execution of a fresh process shows (see e2ShardResult.FirstRun): every
		// shard is an independent reproduction
		for kind, n := range a.first {
			already := false
			for k := range seen {
				if strings.HasPrefix(k, kind+"|") {
					already = true
				}
			}
			if already || n < 2 {
				continue
			}
			if _, known := rep.CheckKnown(kind, a.firstDetail[kind]); known {
				continue
			}
			nviol++
			rep.Report(s.Name, kind, fmt.Sprintf("%s\n(in the first execution of each of %d fresh processes under the default schedule, and not when the same schedule runs again in the same process: the state involved is kept in package-level variables that outlive an execution)", a.firstDetail[kind], n),
				map[string]interface{}{"choices": []int{}, "first_execution_only": true}, nil)
		}
		bd := fmt.Sprint(s.Bound)
		if s.Bound < 0 {
			bd = "unbounded"
		} else if s.Delay {
			bd += " delays"
		} else {
			bd += " preemptions"
		}
		t.PerScenario = append(t.PerScenario, map[string]interface{}{"scenario": s.Name, "bound_completed": bd, "schedules": a.execs, "choice_points": a.points,
			"scheduling_steps": a.steps, "max_choice_depth": a.maxDepth, "distinct_observation_logs": len(a.outcomes), "caps_hit": a.capped})
		if len(t.Samples) < 6 && len(a.sample) > 0 {
			smp := a.sample
			if len(smp) > 14 {
				smp = smp[:14]
			}
			t.Samples = append(t.Samples, map[string]interface{}{"scenario": s.Name, "default_schedule_choice_points": smp})
		}
		fmt.Printf("%s %s: bound=%s schedules=%d points=%d steps=%d depth=%d outcomes=%d violations=%d caps=%v\n", rep.Property, s.Name, bd, a.execs, a.points, a.steps, a.maxDepth, len(a.outcomes), nviol, a.capped)
	}
	if infra {
		return t, false
	}
	return t, true
}

func firstLine(s string) string {
	if i := strings.Index(s, "\n"); i >= 0 {
		return s[:i]
	}
	return s
}

// e2Replay re-executes a recorded schedule without the explorer.
func e2Replay(prop, replay string, scs []*e2Scenario) int {
	r, err := common.ReadReplay(replay)
	if err != nil {
		fmt.Println(err)
		return 2
	}
	var tr struct{ Choices []int }
	b, _ := json.Marshal(r.Trace)
	json.Unmarshal(b, &tr)
	for _, s := range scs {
		if s.Name != r.Scenario {
			continue
		}
		o := s.Sc.Run(tr.Choices)
		for _, l := range vsched.Describe(o) {
			fmt.Println("  ", l)
		}
		for _, l := range o.Log {
			fmt.Println("  log:", l)
		}
		if p := s.Sc.Judge(o); p != nil {
			fmt.Printf("replay: %s: %s\nVIOLATION property=%s replay=%s\n", p.Kind, p.Detail, prop, replay)
			return 1
		}
		fmt.Println("replay: no violation")
		return 0
	}
	fmt.Println("unknown scenario", r.Scenario)
	return 2
}

func e2Evidence(prop, tier string, rep *common.Reporter, t *e2Totals, rule string, assumptions []string) {
	ev := &common.Evidence{PropertyID: prop, Tier: tier}
	ev.Coverage = common.Coverage{
		"states": t.Points, "transitions": t.Steps, "traces_validated_against_impl": t.Execs, "samples": t.Samples,
		"evaluations": t.Execs, "distinct_nontrivial": t.Outcomes, "rule": rule, "exhaustive": t.Exhaustive, "per_scenario": t.PerScenario,
		"states_meaning": "choice points visited (scheduler states at which more than one thread or environment answer was possible), summed over executions; transitions = scheduling steps executed on the real code; traces = complete schedules executed",
	}
	ev.Assumptions = assumptions
	ev.WallS = common.Since(rep.Start)
	ev.Violations = rep.Violations()
	common.WriteEvidence(ev)
}
