package main

import (
	"fmt"
	"strings"
	"time"

	"github.com/vmware/go-ipfix/pkg/collector"
	"github.com/vmware/go-ipfix/pkg/entities"
	"github.com/vmware/go-ipfix/pkg/verifshim/vnet"
	"github.com/vmware/go-ipfix/pkg/verifshim/vsched"

	"verifharness/colcheck"
	"verifharness/colmodel"
	"verifharness/refcodec"
)

// Shared closed-system builder for C11 / C12: a real collector started through Start() on the
// in-memory network, client threads, an eager consumer, optionally a concurrent Stop.

type colClient struct {
	domain     uint32
	segments   [][]byte // what the client writes, one Write per segment (tcp) / one datagram each (udp)
	messages   [][]byte // the messages the byte stream consists of (for the expectation)
	closeAtEnd bool
	// pause: between segments the sender waits until the collector has consumed what was sent, lets one
	// second pass, and waits again (a slow sender; a read deadline inside the collector would expire)
	pause bool
	// tmplID != 0: this client shares its observation domain with another one; its deliveries are the
	// messages of that domain whose records carry this template id (the other client gets the rest)
	tmplID uint16
	// waitClosed >= 0 (with hasWait): the last segment is written only once the collector has closed the
	// connection of that other client
	hasWait    bool
	waitClosed int
	// for tcp: the stream may end mid-message (abrupt close); messages then lists only complete ones + the bad/partial tail is not expected
}

type colOpts struct {
	proto        string
	segmentReads bool
	stopper      bool // a thread calls Stop() at an arbitrary point
	// slowConsumer: after the first message the consumer is busy for 1.5 s of virtual time before it goes on
	// draining (it "keeps draining" in the statement's sense; nothing may be lost over tcp meanwhile)
	slowConsumer bool
	threeWay     bool
	// oracle, when set, replaces the per-client delivery oracle (scenarios whose clients share an
	// observation domain cannot be judged client by client)
	oracle func(delivered []*entities.Message)
}

const colAddr = "127.0.0.1:4739"

// expected deliveries for one client: messages up to (not including) the first undecodable one
func colExpected(c colClient, proto string) ([]colmodel.Expect, bool) {
	st := colmodel.New(colmodel.Strict)
	var out []colmodel.Expect
	for _, m := range c.messages {
		if proto == "tcp" && len(m) >= 4 && int(m[2])<<8|int(m[3]) < 20 {
			// the length field frames the stream: fewer than 20 bytes cannot hold a header and a set header
			return out, true
		}
		e := st.Message(m)
		if e.Kind == colmodel.MustErr {
			if proto == "udp" {
				continue // udp: a bad datagram is dropped, the stream goes on
			}
			return out, true
		}
		out = append(out, e)
	}
	return out, false
}

func colScenario(name string, clients []colClient, o colOpts) *vsched.Scenario {
	main := func() {
		// over tcp a template lives as long as its session whatever TemplateTTL says (one second here: a
		// sender that pauses longer must still get its data decoded)
		ttl := uint32(0)
		if o.proto == "tcp" {
			ttl = 1
		}
		cp, err := collector.InitCollectingProcess(collector.CollectorInput{Address: colAddr, Protocol: o.proto, MaxBufferSize: 65535, TemplateTTL: ttl})
		if err != nil {
			panic(err)
		}
		starter := vsched.Go("Start", func() { cp.Start() })
		var delivered []*entities.Message
		vsched.Go("consumer", func() {
			vsched.SetEager()
			vsched.SetDaemon()
			ch := cp.GetMsgChan()
			for {
				m, ok := vsched.Recv2(ch)
				if !ok {
					return
				}
				delivered = append(delivered, m)
				if o.slowConsumer && len(delivered) == 1 {
					vsched.Quiesce() // every sender that can make progress without the consumer has done so
					vsched.Advance(1500 * time.Millisecond)
					vsched.Quiesce()
				}
			}
		})
		// the scenario starts once Start() has finished initialising (socket open and its service
		// goroutine registered): Stop racing Start's own initialisation is not what the property is about
		vsched.WaitUntil("collector started", func() bool {
			if cp.VerifWGCount() < 1 {
				return false
			}
			if o.proto == "tcp" {
				return vnet.ListenerOpen(colAddr)
			}
			return vnet.UDPOpen(colAddr)
		})
		conns := make([]*vnet.FakeConn, len(clients))
		var ths []*vsched.Thread
		for i := range clients {
			i := i
			ths = append(ths, vsched.Go(fmt.Sprintf("client%d", i), func() {
				c, err := vnet.Dial(o.proto, colAddr)
				if err != nil {
					return
				}
				fc := c.(*vnet.FakeConn)
				conns[i] = fc
				if o.segmentReads && fc.Peer() != nil {
					fc.Peer().SegmentReads = true
				}
				for si, s := range clients[i].segments {
					if clients[i].hasWait && si == len(clients[i].segments)-1 {
						j := clients[i].waitClosed
						vsched.WaitUntil("the collector closed the other connection", func() bool { return conns[j] != nil && conns[j].PeerClosed() })
						vsched.Quiesce()
					}
					if clients[i].pause && si > 0 {
						vsched.Quiesce()
						vsched.Advance(time.Second)
						vsched.Quiesce()
					}
					if _, err := c.Write(s); err != nil {
						break
					}
				}
				if clients[i].closeAtEnd {
					c.Close()
				}
			}))
		}
		stopReturned := false
		if o.stopper {
			ths = append(ths, vsched.Go("stopper", func() {
				cp.Stop()
				stopReturned = true
				colLeakAtStop()
			}))
		}
		vsched.Join(ths...)
		vsched.Quiesce()
		// ---- oracle ----
		byDomain := map[uint32][]*entities.Message{}
		byTmpl := map[[2]uint32][]*entities.Message{}
		split := map[[2]uint32]bool{}
		for _, c := range clients {
			if c.tmplID != 0 {
				split[[2]uint32{c.domain, uint32(c.tmplID)}] = true
			}
		}
		for _, m := range delivered {
			if rs := m.GetSet().GetRecords(); len(rs) > 0 && split[[2]uint32{m.GetObsDomainID(), uint32(rs[0].GetTemplateID())}] {
				k := [2]uint32{m.GetObsDomainID(), uint32(rs[0].GetTemplateID())}
				byTmpl[k] = append(byTmpl[k], m)
				continue
			}
			byDomain[m.GetObsDomainID()] = append(byDomain[m.GetObsDomainID()], m)
		}
		var obs []string
		if o.oracle != nil {
			o.oracle(delivered)
		}
		for i, c := range clients {
			if o.oracle != nil {
				break
			}
			exp, hadBad := colExpected(c, o.proto)
			got := byDomain[c.domain]
			if c.tmplID != 0 {
				got = byTmpl[[2]uint32{c.domain, uint32(c.tmplID)}]
			}
			if len(got) > len(exp) {
				vsched.Fail("extra-delivery", "client %d (domain %d): %d messages delivered, the stream contains only %d decodable ones before the first undecodable message", i, c.domain, len(got), len(exp))
			}
			for j := 0; j < len(got) && j < len(exp); j++ {
				if v := colcheck.Judge(colmodel.Strict, exp[j], got[j], nil); v != nil {
					vsched.Fail("wrong-delivery", "client %d (domain %d) delivery #%d: %s", i, c.domain, j, v.Detail)
				}
			}
			if !o.stopper && o.proto == "tcp" && len(got) != len(exp) {
				vsched.Fail("missing-delivery", "client %d (domain %d): %d of %d messages delivered (exactly-once, in order)", i, c.domain, len(got), len(exp))
			}
			if !o.stopper && o.proto == "udp" && len(got) != len(exp) {
				// the in-memory network does not lose datagrams, so at-most-once becomes exactly-once here
				vsched.Fail("missing-delivery", "client %d (domain %d): %d of %d datagrams delivered although none was lost", i, c.domain, len(got), len(exp))
			}
			if o.proto == "tcp" && hadBad && !o.stopper && conns[i] != nil && !conns[i].PeerClosed() {
				vsched.Fail("not-closed-after-bad-message", "client %d: the stream contained an undecodable message but the collector did not close the connection", i)
			}
			obs = append(obs, fmt.Sprintf("c%d:%d/%d", i, len(got), len(exp)))
		}
		if !o.stopper {
			allClosed := true
			for _, c := range clients {
				if !c.closeAtEnd {
					allClosed = false
				}
			}
			if o.proto == "tcp" && allClosed {
				if n := cp.GetNumConnToCollector(); n != 0 {
					vsched.Fail("connection-count", "all clients disconnected but GetNumConnToCollector() = %d", n)
				}
			}
			cp.Stop()
			stopReturned = true
			colLeakAtStop()
		}
		vsched.Join(starter)
		vsched.Quiesce()
		if stopReturned {
			if l := vsched.Live(); len(l) > 0 {
				vsched.Fail("goroutine-leak", "Stop returned but these collector threads are still alive: %v", l)
			}
			if (o.proto == "tcp" && vnet.ListenerOpen(colAddr)) || (o.proto == "udp" && vnet.UDPOpen(colAddr)) {
				vsched.Fail("socket-leak", "Stop returned but the listening socket is still open")
			}
			before := len(delivered)
			vsched.Quiesce()
			if len(delivered) != before {
				vsched.Fail("delivery-after-stop", "messages were delivered after Stop returned")
			}
		}
		vsched.Logf("%s stop=%v", strings.Join(obs, " "), o.stopper)
	}
	return &vsched.Scenario{Name: name, Main: main, TrackRaces: true, Start: t0}
}

// colLeakAtStop: the instant Stop returns, every goroutine the collector started itself must have
// finished (the caller's own Start goroutine, which closes the listener after Stop's signal, and the
// harness threads are not the collector's).
func colLeakAtStop() {
	var left []string
	for _, l := range vsched.Live() {
		if strings.Contains(l, "(Start)") || strings.Contains(l, "(client") || strings.Contains(l, "(stopper)") || strings.Contains(l, "(main)") || strings.Contains(l, "(consumer)") {
			continue
		}
		left = append(left, l)
	}
	if len(left) > 0 {
		vsched.Fail("goroutine-alive-at-stop-return", "Stop returned while goroutines of the collecting process are still running: %v", left)
	}
}

// standard streams
var (
	colTA = []refcodec.FieldSpec{{ID: 7, Len: 2}, {ID: 4, Len: 1}, {ID: 82, Len: 65535}, {ID: 313, Len: 65535}}
)

func colStream(domain uint32, ndata int) [][]byte { return colStreamT(domain, 256, ndata) }

func colStreamT(domain uint32, tid uint16, ndata int) [][]byte {
	h := refcodec.Header{ExportTime: 1000, Seq: 0, Domain: domain}
	t := refcodec.Template{ID: tid, Fields: colTA}
	msgs := [][]byte{refcodec.TemplateMsg(h, t)}
	for i := 0; i < ndata; i++ {
		h.Seq = uint32(i + 1)
		rec := [][]byte{{byte(domain), byte(i)}, {byte(6 + i)}, []byte(fmt.Sprintf("if%d-%d", domain, i)), {0xd0 + byte(i), byte(domain), 0xfe, byte(i)}}
		rec2 := [][]byte{{0xaa, byte(i)}, {17}, []byte("x"), {byte(i), 0x0c}}
		msgs = append(msgs, refcodec.DataMsg(h, t, [][][]byte{rec, rec2}))
	}
	return msgs
}

func concat(msgs [][]byte) []byte {
	var out []byte
	for _, m := range msgs {
		out = append(out, m...)
	}
	return out
}

// cutAt splits b at the given ascending offsets.
func cutAt(b []byte, cuts []int) [][]byte {
	var out [][]byte
	prev := 0
	for _, c := range cuts {
		out = append(out, b[prev:c])
		prev = c
	}
	return append(out, b[prev:])
}
