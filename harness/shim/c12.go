package main

import (
	"fmt"

	"github.com/vmware/go-ipfix/pkg/entities"
	"github.com/vmware/go-ipfix/pkg/verifshim/vsched"

	"verifharness/common"
	"verifharness/refcodec"
)

func init() { checks["C12"] = runC12 }

func c12E2(tier string) []*e2Scenario {
	b := 3
	if tier == "thorough" {
		b = 4
	}
	cl := func(domain uint32, ndata int, segs [][]byte, closeAtEnd bool) colClient {
		msgs := colStream(domain, ndata)
		if segs == nil {
			segs = msgs
		}
		return colClient{domain: domain, segments: segs, messages: msgs, closeAtEnd: closeAtEnd}
	}
	// tcp-C: client 1 dies in the middle of its second message
	s1 := colStream(1, 2)
	whole := concat(s1)
	cutMid := len(s1[0]) + len(s1[1])/2
	dying := colClient{domain: 1, segments: [][]byte{whole[:cutMid]}, messages: s1[:1], closeAtEnd: true}
	var out []*e2Scenario
	add := func(name string, clients []colClient, o colOpts, bound int) {
		out = append(out, &e2Scenario{Name: name, Sc: colScenario(name, clients, o), Bound: bound, Delay: true})
	}
	add("tcp-A-two-clients", []colClient{cl(1, 2, nil, true), cl(2, 2, nil, true)}, colOpts{proto: "tcp"}, b)
	add("tcp-B-two-clients-vs-stop", []colClient{cl(1, 2, nil, true), cl(2, 1, nil, false)}, colOpts{proto: "tcp", stopper: true}, b)
	add("tcp-C-client-dies-mid-message", []colClient{dying, cl(2, 1, nil, true)}, colOpts{proto: "tcp"}, b)
	// tcp-G: a client has sent a message header and part of the body and then goes quiet (connection open);
	// Stop must still return
	stalled := colClient{domain: 1, segments: [][]byte{whole[:cutMid]}, messages: s1[:1], closeAtEnd: false}
	add("tcp-G-client-stalled-mid-message-vs-stop", []colClient{stalled}, colOpts{proto: "tcp", stopper: true}, b)
	add("tcp-F-slow-consumer", []colClient{cl(1, 2, nil, true)}, colOpts{proto: "tcp", slowConsumer: true}, b)
	add("tcp-D-three-clients", []colClient{cl(1, 0, nil, true), cl(2, 0, nil, true), cl(3, 0, nil, true)}, colOpts{proto: "tcp"}, b)
	// tcp-E: two exporters of the same observation domain use the same template id; B re-defines the
	// template (same widths, different elements) while A's data is in flight. Every data message must be
	// decoded wholly with one of the two definitions, never with a mixture.
	{
		h := refcodec.Header{ExportTime: 1000, Seq: 0, Domain: 1}
		tA := refcodec.Template{ID: 256, Fields: []refcodec.FieldSpec{{ID: 7, Len: 2}, {ID: 4, Len: 1}, {ID: 82, Len: 65535}, {ID: 313, Len: 65535}}}
		tB := refcodec.Template{ID: 256, Fields: []refcodec.FieldSpec{{ID: 11, Len: 2}, {ID: 5, Len: 1}, {ID: 83, Len: 65535}, {ID: 316, Len: 65535}}}
		rec := func(i int) [][]byte { return [][]byte{{1, byte(i)}, {byte(6 + i)}, []byte("abc"), {0xde, byte(i)}} }
		var aMsgs [][]byte
		aMsgs = append(aMsgs, refcodec.TemplateMsg(h, tA))
		for i := 0; i < 2; i++ {
			h.Seq = uint32(i + 1)
			aMsgs = append(aMsgs, refcodec.DataMsg(h, tA, [][][]byte{rec(i), rec(i + 10)}))
		}
		h.Seq = 50
		bMsgs := [][]byte{refcodec.TemplateMsg(h, tB)}
		ids := func(t refcodec.Template) string { return fmt.Sprint(t.Fields[0].ID, t.Fields[1].ID, t.Fields[2].ID, t.Fields[3].ID) }
		oracle := func(delivered []*entities.Message) {
			data := 0
			for _, m := range delivered {
				set := m.GetSet()
				if set.GetSetType() != entities.Data {
					continue
				}
				data++
				for ri, r := range set.GetRecords() {
					l := r.GetOrderedElementList()
					if len(l) != 4 {
						vsched.Fail("mixed-template", "data message seq %d record %d has %d fields", m.GetSequenceNum(), ri, len(l))
						continue
					}
					got := fmt.Sprint(l[0].GetInfoElement().ElementId, l[1].GetInfoElement().ElementId, l[2].GetInfoElement().ElementId, l[3].GetInfoElement().ElementId)
					if got != ids(tA) && got != ids(tB) {
						vsched.Fail("mixed-template", "data message seq %d record %d was decoded with element ids %s: neither the first definition (%s) nor the re-definition (%s) of template 256 but a mixture", m.GetSequenceNum(), ri, got, ids(tA), ids(tB))
					}
				}
			}
			if data != 2 {
				vsched.Fail("missing-delivery", "%d of 2 data messages delivered (both definitions parse the same bytes, none may be refused)", data)
			}
		}
		add("tcp-E-shared-template-id-redefined", []colClient{{domain: 1, segments: aMsgs, messages: aMsgs, closeAtEnd: true}, {domain: 1, segments: bMsgs, messages: bMsgs, closeAtEnd: true}}, colOpts{proto: "tcp", oracle: oracle}, b)
	}
	add("udp-A-two-remotes", []colClient{cl(1, 2, nil, false), cl(2, 1, nil, false)}, colOpts{proto: "udp"}, b)
	add("udp-B-two-remotes-vs-stop", []colClient{cl(1, 1, nil, false), cl(2, 1, nil, false)}, colOpts{proto: "udp", stopper: true}, b)
	return out
}

func runC12(tier, replay string) int {
	rep := common.NewReporter("C12")
	if tier == "replay" {
		return e2Replay("C12", replay, c12E2("thorough"))
	}
	tot, ok := runE2(rep, c12E2(tier), 0)
	if tot == nil {
		if ok {
			return 0
		}
		return 2
	}
	e2Evidence("C12", tier, rep, tot,
		"every schedule within the delay bound of seven closed scenarios (two/three TCP clients sending template+data and closing; two exporters of one observation domain re-defining a shared template id; the same against a concurrent Stop; a client dying mid-message; two UDP remotes with and without a concurrent Stop) on the real collector started through Start() on the in-memory network, with an always-draining consumer; oracle: per connection the deliveries are exactly (with Stop: a prefix of) what it sent, in order, decoded correctly; connection count returns to 0; Stop returns in every schedule (deadlock detection), afterwards no collector thread is alive, the listening socket is closed and nothing more is delivered; WaitGroup misuse and data races (happens-before over instrumented fields) in every schedule",
		[]string{"TLS is not run under the controlled scheduler (crypto/tls holds uninstrumented locks); the code above net.Conn is identical", "<= 3 clients", "the in-memory network loses no datagrams, so UDP at-most-once is checked as exactly-once"})
	if !ok {
		return 2
	}
	return rep.Finish()
}
