package main

import (
	"verifharness/common"
)

func init() { checks["C12"] = runC12 }

func c12E2(tier string) []*e2Scenario {
	b := 3
	if tier == "thorough" {
		b = 4
	}
	cl := func(domain uint32, ndata int, segs [][]byte, closeAtEnd bool) colClient {
		msgs := colStream(domain, ndata)
		if segs == nil {
			segs = msgs
		}
		return colClient{domain: domain, segments: segs, messages: msgs, closeAtEnd: closeAtEnd}
	}
	// tcp-C: client 1 dies in the middle of its second message
	s1 := colStream(1, 2)
	whole := concat(s1)
	cutMid := len(s1[0]) + len(s1[1])/2
	dying := colClient{domain: 1, segments: [][]byte{whole[:cutMid]}, messages: s1[:1], closeAtEnd: true}
	var out []*e2Scenario
	add := func(name string, clients []colClient, o colOpts, bound int) {
		out = append(out, &e2Scenario{Name: name, Sc: colScenario(name, clients, o), Bound: bound, Delay: true})
	}
	add("tcp-A-two-clients", []colClient{cl(1, 2, nil, true), cl(2, 2, nil, true)}, colOpts{proto: "tcp"}, b)
	add("tcp-B-two-clients-vs-stop", []colClient{cl(1, 2, nil, true), cl(2, 1, nil, false)}, colOpts{proto: "tcp", stopper: true}, b)
	add("tcp-C-client-dies-mid-message", []colClient{dying, cl(2, 1, nil, true)}, colOpts{proto: "tcp"}, b)
	add("tcp-D-three-clients", []colClient{cl(1, 0, nil, true), cl(2, 0, nil, true), cl(3, 0, nil, true)}, colOpts{proto: "tcp"}, b)
	add("udp-A-two-remotes", []colClient{cl(1, 2, nil, false), cl(2, 1, nil, false)}, colOpts{proto: "udp"}, b)
	add("udp-B-two-remotes-vs-stop", []colClient{cl(1, 1, nil, false), cl(2, 1, nil, false)}, colOpts{proto: "udp", stopper: true}, b)
	return out
}

func runC12(tier, replay string) int {
	rep := common.NewReporter("C12")
	if tier == "replay" {
		return e2Replay("C12", replay, c12E2("thorough"))
	}
	tot, ok := runE2(rep, c12E2(tier), 0)
	if tot == nil {
		if ok {
			return 0
		}
		return 2
	}
	e2Evidence("C12", tier, rep, tot,
		"every schedule up to the preemption bound of six closed scenarios (two/three TCP clients sending template+data and closing; the same against a concurrent Stop; a client dying mid-message; two UDP remotes with and without a concurrent Stop) on the real collector started through Start() on the in-memory network, with an always-draining consumer; oracle: per connection the deliveries are exactly (with Stop: a prefix of) what it sent, in order, decoded correctly; connection count returns to 0; Stop returns in every schedule (deadlock detection), afterwards no collector thread is alive, the listening socket is closed and nothing more is delivered; WaitGroup misuse and data races (happens-before over instrumented fields) in every schedule",
		[]string{"TLS is not run under the controlled scheduler (crypto/tls holds uninstrumented locks); the code above net.Conn is identical", "<= 3 clients", "the in-memory network loses no datagrams, so UDP at-most-once is checked as exactly-once"})
	if !ok {
		return 2
	}
	return rep.Finish()
}
