package main

import (
	"encoding/json"
	"fmt"
	"strings"
	"time"

	"github.com/vmware/go-ipfix/pkg/entities"
	"github.com/vmware/go-ipfix/pkg/exporter"
	"github.com/vmware/go-ipfix/pkg/verifshim/vnet"
	"github.com/vmware/go-ipfix/pkg/verifshim/vsched"

	"verifharness/common"
	"verifharness/refcodec"
)

func init() { checks["C14"] = runC14 }

type c14send struct {
	tmpl     *expTmpl
	template bool
	n        int
	// failWrite: the connection refuses the application's write for this send - a failed re-announcement of
	// tmpl, which must stay known and keep being refreshed
	failWrite bool
	// also: a second template record in the same template set (both must be refreshed afterwards)
	also *expTmpl
}

// c14check verifies that every write is exactly one well-formed message of a known shape.
const c14domain = 0x0A0B0C07


func c14checkLog(conn *vnet.FakeConn, ts []*expTmpl) {
	byID := map[uint16]*expTmpl{}
	for _, t := range ts {
		byID[t.ref.ID] = t
	}
	var records uint32 // data records transmitted so far, in wire order
	for i, w := range conn.Writes {
		if pm, err := refcodec.ParseMsg(w.Data); err == nil {
			if pm.SetID != 2 {
				if t, ok := byID[pm.SetID]; ok {
					if recs, _, err := refcodec.ParseDataBody(pm.Body, t.ref.Fields); err == nil {
						records += uint32(len(recs))
					}
				}
			}
			if pm.Header.Domain != c14domain {
				vsched.Fail("domain-on-wire", "write #%d (set id %d, thread %d) carries observation domain %#x, the exporting process was configured with %#x", i, pm.SetID, w.Thread, pm.Header.Domain, uint32(c14domain))
			}
			// (the export time is not compared with the second of the write: the clock may tick between the
			// stamp and the write inside one SendSet, and the statement does not fix the instant within the call)
			if pm.Header.Seq != records {
				vsched.Fail("sequence-on-wire", "write #%d (set id %d, thread %d) carries sequence number %d, but %d data records have been transmitted up to and including it", i, pm.SetID, w.Thread, pm.Header.Seq, records)
			}
		}
		p, err := refcodec.StrictCheck(w.Data)
		if err != nil {
			vsched.Fail("malformed-write", "write #%d by thread %d is not one whole well-formed message: %v (%d bytes: %x)", i, w.Thread, err, len(w.Data), short(w.Data))
			continue
		}
		if p.SetID == 2 {
			// one or more template records
			for body := p.Body; len(body) > 0; {
				tt, rest, _, err := refcodec.ParseTemplateBody(body)
				if err != nil {
					vsched.Fail("malformed-write", "write #%d: template body does not parse: %v", i, err)
					break
				}
				if t, ok := byID[tt.ID]; !ok || fmt.Sprint(t.ref.Fields) != fmt.Sprint(tt.Fields) {
					vsched.Fail("corrupted-message", "write #%d: template %d on the wire does not match any template handed to SendSet: %v", i, tt.ID, tt.Fields)
				}
				body = rest
			}
			continue
		}
		t, ok := byID[p.SetID]
		if !ok {
			vsched.Fail("corrupted-message", "write #%d: data set id %d was never used by the application", i, p.SetID)
			continue
		}
		if _, pad, err := refcodec.ParseDataBody(p.Body, t.ref.Fields); err != nil || pad != 0 {
			vsched.Fail("corrupted-message", "write #%d: data set %d does not parse under its template: %v pad=%d", i, p.SetID, err, pad)
		}
	}
}

func c14clientConn() *vnet.FakeConn {
	for _, c := range vnet.Conns() {
		if strings.Contains(c.Name, "client") {
			return c
		}
	}
	return nil
}

func c14leak(what string) {
	vsched.Quiesce()
	if l := vsched.Live(); len(l) > 0 {
		vsched.Fail("goroutine-leak", "%s: these exporter threads are still alive: %v", what, l)
	}
}

func c14UDP(name string, advances int, closers int, sends []c14send, ts []*expTmpl) *vsched.Scenario {
	main := func() {
		ep, err := exporter.InitExportingProcess(exporter.ExporterInput{CollectorAddress: "127.0.0.1:4739", CollectorProtocol: "udp", ObservationDomainID: c14domain, TempRefTimeout: 1})
		if err != nil {
			panic(err)
		}
		conn := c14clientConn()
		// let the background goroutine start and park on its ticker first: its interval is measured from
		// when it starts, and a start delayed by a whole refresh interval is not a timing the statement
		// is about
		vsched.Quiesce()
		type done struct {
			id   uint16
			step int
		}
		var tmplDone []done
		var results []string
		var scratch []entities.InfoElementWithValue // the application's own slice, reused for every template
		app := vsched.Go("app", func() {
			for _, s := range sends {
				var set entities.Set
				if s.template {
					// slice-adopting add path; after SendSet returns the application reuses its slice
					scratch = scratch[:0]
					for _, ie := range s.tmpl.ies {
						e, err := entities.DecodeAndCreateInfoElementWithValue(ie, nil)
						if err != nil {
							panic(err)
						}
						scratch = append(scratch, e)
					}
					ts := entities.NewSet(false)
					ts.PrepareSet(entities.Template, s.tmpl.ref.ID)
					ts.AddRecordV2(scratch, s.tmpl.ref.ID)
					if s.failWrite {
						conn.FailWritesOf, conn.FailWrites = vsched.CurID(), 1
					}
					if s.also != nil {
						var more []entities.InfoElementWithValue
						for _, ie := range s.also.ies {
							e, err := entities.DecodeAndCreateInfoElementWithValue(ie, nil)
							if err != nil {
								panic(err)
							}
							more = append(more, e)
						}
						ts.AddRecord(more, s.also.ref.ID)
					}
					set = ts
				} else {
					set, _ = dataSet(s.tmpl, s.n, 5, 0)
				}
				n, err := ep.SendSet(set)
				if err == nil && s.template {
					tmplDone = append(tmplDone, done{s.tmpl.ref.ID, vsched.StepNo()})
					if s.also != nil {
						tmplDone = append(tmplDone, done{s.also.ref.ID, vsched.StepNo()})
					}
				}
				if s.failWrite && err == nil {
					vsched.Fail("silent-drop", "the connection refused the write, yet SendSet reported success")
				}
				if err == nil && n == 0 {
					vsched.Fail("silent-drop", "SendSet returned (0, nil)")
				}
				results = append(results, fmt.Sprint(err == nil))
			}
		})
		lastAdv := -1
		env := vsched.Go("env", func() {
			for i := 0; i < advances; i++ {
				vsched.Advance(time.Second)
				lastAdv = vsched.StepNo()
			}
		})
		closeReturned := -1
		var cl []*vsched.Thread
		for i := 0; i < closers; i++ {
			cl = append(cl, vsched.Go(fmt.Sprintf("closer%d", i), func() {
				ep.CloseConnToCollector()
			}))
		}
		if closers > 0 {
			// "no byte is written afterwards": counted from the moment every concurrent Close call has
			// returned (a Close that overlaps another one still in progress is left open by the statement)
			vsched.Join(cl...)
			closeReturned = len(conn.Writes)
		}
		vsched.Join(app, env)
		vsched.Quiesce()
		c14checkLog(conn, ts)
		if closers == 0 {
			// refresh oracle: the burst(s) after the last clock advance retransmit every template whose
			// send had completed before that advance
			if advances > 0 {
				got := map[uint16]bool{}
				for _, w := range conn.Writes {
					if w.Step > lastAdv && w.Thread != app.ID {
						if p, err := refcodec.ParseMsg(w.Data); err == nil && p.SetID == 2 {
							for body := p.Body; len(body) > 0; {
								tt, rest, _, err := refcodec.ParseTemplateBody(body)
								if err != nil {
									break
								}
								got[tt.ID] = true
								body = rest
							}
						}
					}
				}
				for _, d := range tmplDone {
					if d.step < lastAdv && !got[d.id] {
						vsched.Fail("refresh-missing", "template %d was sent before the refresh interval elapsed but was not retransmitted by the refresh that followed (retransmitted: %v)", d.id, got)
					}
				}
			}
			for _, w := range conn.Writes {
				if w.Thread != app.ID {
					if p, err := refcodec.ParseMsg(w.Data); err == nil && p.SetID != 2 {
						vsched.Fail("background-data", "a background thread wrote a data set")
					}
				}
			}
			// "no byte is written afterwards": on this connection or on any other one the process might open
			allWrites := func() int {
				n := 0
				for _, c := range vnet.Conns() {
					n += len(c.Writes)
				}
				return n
			}
			before := allWrites()
			ep.CloseConnToCollector()
			ep.CloseConnToCollector() // idempotent
			c14leak("after CloseConnToCollector")
			if allWrites() != before {
				vsched.Fail("write-after-close", "%d messages were written after CloseConnToCollector returned", allWrites()-before)
			}
			// an application that goes on sending after Close gets nothing onto the wire (an error is the
			// natural outcome; the statement only forbids the bytes)
			if len(sends) > 0 {
				late, _ := dataSet(sends[0].tmpl, 1, 5, 0)
				ep.SendSet(late)
				vsched.Quiesce()
				if allWrites() != before {
					vsched.Fail("write-after-close", "a SendSet issued after CloseConnToCollector had returned put %d message(s) on the wire (connections now: %d)", allWrites()-before, len(vnet.Conns()))
				}
				c14leak("after a send that followed CloseConnToCollector")
			}
		} else {
			c14leak("after concurrent CloseConnToCollector calls")
			if closeReturned >= 0 && len(conn.Writes) != closeReturned {
				vsched.Fail("write-after-close", "%d messages were written after all CloseConnToCollector calls had returned", len(conn.Writes)-closeReturned)
			}
			if !conn.Closed() {
				vsched.Fail("not-closed", "connection still open after CloseConnToCollector")
			}
		}
		nbg := 0
		for _, w := range conn.Writes {
			if w.Thread != app.ID {
				nbg++
			}
		}
		vsched.Logf("app=%v writes=%d background=%d", results, len(conn.Writes), nbg)
	}
	return &vsched.Scenario{Name: name, Main: main, TrackRaces: true, Start: t0}
}

// quietTicks: check intervals that pass with the connection healthy before the collector closes its side
func c14TCP(name string, closers int, sends []c14send, ts []*expTmpl, quietTicks ...int) *vsched.Scenario {
	main := func() {
		l, err := vnet.Listen("tcp", "127.0.0.1:4739")
		if err != nil {
			panic(err)
		}
		ep, err := exporter.InitExportingProcess(exporter.ExporterInput{CollectorAddress: "127.0.0.1:4739", CollectorProtocol: "tcp", ObservationDomainID: c14domain, CheckConnInterval: time.Second})
		if err != nil {
			panic(err)
		}
		svc, err := l.Accept()
		if err != nil {
			panic(err)
		}
		sv := svc.(*vnet.FakeConn)
		conn := sv.Peer()
		vsched.Quiesce() // background checker started and parked on its ticker (see c14UDP)
		var results []string
		app := vsched.Go("app", func() {
			for _, s := range sends {
				var set entities.Set
				if s.template {
					set = tmplSet(s.tmpl)
				} else {
					set, _ = dataSet(s.tmpl, s.n, 5, 0)
				}
				before := len(conn.Writes)
				n, err := ep.SendSet(set)
				if err == nil && (n == 0 || len(conn.Writes) != before+1) {
					vsched.Fail("silent-drop", "SendSet reported success (%d bytes) but %d messages were written", n, len(conn.Writes)-before)
				}
				if err != nil && len(conn.Writes) != before {
					vsched.Fail("error-but-written", "SendSet failed (%v) but wrote a message", err)
				}
				results = append(results, fmt.Sprint(err == nil))
			}
		})
		env := vsched.Go("env", func() {
			if len(quietTicks) > 0 {
				for i := 0; i < quietTicks[0]; i++ {
					vsched.Advance(time.Second)
				}
			}
			sv.Close() // the collector closes its side
			vsched.Advance(time.Second)
		})
		var cl []*vsched.Thread
		for i := 0; i < closers; i++ {
			cl = append(cl, vsched.Go(fmt.Sprintf("closer%d", i), func() { ep.CloseConnToCollector() }))
		}
		vsched.Join(append([]*vsched.Thread{app, env}, cl...)...)
		vsched.Quiesce() // the check tick has been processed
		c14checkLog(conn, ts)
		// peer closed + one check tick processed: later sends must fail and write nothing
		before := len(conn.Writes)
		set, _ := dataSet(ts[0], 1, 5, 0)
		if _, err := ep.SendSet(set); err == nil {
			vsched.Fail("send-after-peer-close", "the collector closed its side and a connection check has run, yet SendSet reported success (the data vanished)")
		}
		if len(conn.Writes) != before {
			vsched.Fail("send-after-peer-close", "SendSet wrote to the connection after the peer close was noticed")
		}
		ep.CloseConnToCollector()
		ep.CloseConnToCollector()
		c14leak("after CloseConnToCollector")
		if !conn.Closed() {
			vsched.Fail("not-closed", "connection still open after CloseConnToCollector")
		}
		vsched.Logf("app=%v writes=%d", results, len(conn.Writes))
	}
	return &vsched.Scenario{Name: name, Main: main, TrackRaces: true, Start: t0}
}

// c14Blocked: the collector is alive but not reading; the application's second send blocks in Write;
// another goroutine calls CloseConnToCollector, which must return and must unblock the sender.
func c14Blocked(name string, ts []*expTmpl) *vsched.Scenario {
	main := func() {
		l, err := vnet.Listen("tcp", "127.0.0.1:4739")
		if err != nil {
			panic(err)
		}
		ep, err := exporter.InitExportingProcess(exporter.ExporterInput{CollectorAddress: "127.0.0.1:4739", CollectorProtocol: "tcp", ObservationDomainID: c14domain, CheckConnInterval: time.Hour})
		if err != nil {
			panic(err)
		}
		svc, _ := l.Accept()
		conn := svc.(*vnet.FakeConn).Peer()
		conn.WriteCap = 1
		vsched.Quiesce()
		var results []string
		app := vsched.Go("app", func() {
			for i := 0; i < 3; i++ {
				var set entities.Set
				if i == 0 {
					set = tmplSet(ts[0])
				} else {
					set, _ = dataSet(ts[0], 1, 5, 0)
				}
				_, err := ep.SendSet(set)
				results = append(results, fmt.Sprint(err == nil))
			}
		})
		closer := vsched.Go("closer", func() { ep.CloseConnToCollector() })
		vsched.Join(app, closer)
		c14leak("after CloseConnToCollector with a sender blocked in Write")
		vsched.Logf("app=%v", results)
	}
	return &vsched.Scenario{Name: name, Main: main, TrackRaces: true, Start: t0}
}

// c14JSON: JSON mode over UDP - the background refresh must not put anything but JSON documents on
// the connection.
func c14JSON(name string, ts []*expTmpl) *vsched.Scenario {
	main := func() {
		ep, err := exporter.InitExportingProcess(exporter.ExporterInput{CollectorAddress: "127.0.0.1:4739", CollectorProtocol: "udp", ObservationDomainID: c14domain, TempRefTimeout: 1, SendJSONRecord: true})
		if err != nil {
			panic(err)
		}
		conn := c14clientConn()
		vsched.Quiesce()
		app := vsched.Go("app", func() {
			ep.SendSet(tmplSet(ts[0]))
			set, _ := dataSet(ts[0], 2, 5, 0)
			if _, err := ep.SendSet(set); err != nil {
				vsched.Fail("json-send", "SendSet(data) in JSON mode: %v", err)
			}
		})
		env := vsched.Go("env", func() { vsched.Advance(time.Second) })
		vsched.Join(app, env)
		vsched.Quiesce()
		for i, w := range conn.Writes {
			var doc map[string]interface{}
			if err := json.Unmarshal(w.Data, &doc); err != nil {
				vsched.Fail("non-json-write", "write #%d by thread %d on a JSON-mode connection is not a JSON document: %v (%x)", i, w.Thread, err, short(w.Data))
			}
		}
		ep.CloseConnToCollector()
		c14leak("after CloseConnToCollector")
		vsched.Logf("writes=%d", len(conn.Writes))
	}
	return &vsched.Scenario{Name: name, Main: main, TrackRaces: true, Start: t0}
}

func c14E2(tier string) []*e2Scenario {
	ts := c08Tmpls()
	sends := []c14send{{tmpl: ts[0], template: true, n: 0, failWrite: false}, {tmpl: ts[0], template: false, n: 2, failWrite: false}, {tmpl: ts[1], template: true, n: 0, failWrite: false}, {tmpl: ts[1], template: false, n: 1, failWrite: false}}
	short2 := []c14send{{tmpl: ts[0], template: true, n: 0, failWrite: false}, {tmpl: ts[0], template: false, n: 1, failWrite: false}}
	b := 2
	if tier == "thorough" {
		b = 3
	}
	return []*e2Scenario{
		{Name: "udp-1-refresh-vs-app", Sc: c14UDP("udp-1-refresh-vs-app", 1, 0, sends, ts), Bound: b},
		{Name: "udp-1b-two-refreshes", Sc: c14UDP("udp-1b-two-refreshes", 2, 0, sends[:3], ts), Bound: b},
		{Name: "udp-1c-failed-reannouncement", Sc: c14UDP("udp-1c-failed-reannouncement", 1, 0, []c14send{{tmpl: ts[0], template: true, n: 0, failWrite: false}, {tmpl: ts[0], template: true, n: 0, failWrite: true}, {tmpl: ts[0], template: false, n: 1, failWrite: false}}, ts), Bound: b},
		{Name: "udp-1d-two-templates-in-one-set", Sc: c14UDP("udp-1d-two-templates-in-one-set", 1, 0, []c14send{{tmpl: ts[0], template: true, also: ts[1]}, {tmpl: ts[1], n: 1}}, ts), Bound: b},
		{Name: "udp-2-concurrent-close", Sc: c14UDP("udp-2-concurrent-close", 1, 2, short2, ts), Bound: b},
		{Name: "tcp-1-peer-close", Sc: c14TCP("tcp-1-peer-close", 0, sends[:3], ts), Bound: b},
		{Name: "tcp-1b-peer-close-after-quiet-checks", Sc: c14TCP("tcp-1b-peer-close-after-quiet-checks", 0, sends[:2], ts, 2), Bound: b},
		{Name: "tcp-2-checker-close-vs-close", Sc: c14TCP("tcp-2-checker-close-vs-close", 2, short2[:1], ts), Bound: b},
		{Name: "tcp-3-close-vs-blocked-write", Sc: c14Blocked("tcp-3-close-vs-blocked-write", ts), Bound: b + 1},
		{Name: "udp-json-refresh", Sc: c14JSON("udp-json-refresh", ts), Bound: b + 1},
	}
}

func runC14(tier, replay string) int {
	rep := common.NewReporter("C14")
	if tier == "replay" {
		return e2Replay("C14", replay, c14E2("thorough"))
	}
	tot, ok := runE2(rep, c14E2(tier), 0)
	if tot == nil {
		if ok {
			return 0
		}
		return 2
	}
	e2Evidence("C14", tier, rep, tot,
		"every schedule up to the preemption bound of: an application thread sending template/data sets, an environment thread advancing the virtual clock past the refresh / check interval (and closing the peer), and up to two threads calling CloseConnToCollector, against the exporter's own refresher / connection checker (started by the real InitExportingProcess on an in-memory connection); oracle per execution: every write is one whole well-formed message of a shape the application produced, the refresh after the last tick retransmits every template sent before it, after peer close + one check tick SendSet fails and writes nothing, Close returns in every schedule, leaves no exporter thread alive and nothing is written after it returned; deadlock, crash and happens-before data-race detection on every instrumented field",
		[]string{"one application goroutine calls SendSet (the statement's assumption)", "a write to a connection whose peer has closed succeeds silently until the local side notices (TCP semantics)"})
	if !ok {
		return 2
	}
	return rep.Finish()
}

var _ = common.VerifDir
