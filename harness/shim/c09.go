package main

import (
	"encoding/json"
	"bytes"
	"fmt"
	"net"
	"strings"
	"time"

	"github.com/vmware/go-ipfix/pkg/entities"
	"github.com/vmware/go-ipfix/pkg/registry"
	"github.com/vmware/go-ipfix/pkg/verifshim/vsched"

	"verifharness/common"
	"verifharness/xplore"
)

// C09: valid sends interleaved with every fault kind.

type c09op struct {
	name string
	kind string
	t    int
	n    int
	arg  int
}

type c09sys struct {
	x    *expSession
	ops  []c09op
	ts   []*expTmpl
	json bool // SendJSONRecord: templates are only registered, every data record is written as one JSON document
}

func c09Tmpls() []*expTmpl {
	return []*expTmpl{
		mkTmpl(256, []string{"sourceIPv4Address", "destinationTransportPort", "packetDeltaCount"}, []uint32{0, 0, 0}),
		mkTmpl(257, []string{"interfaceName"}, []uint32{0}),
		// typed template for ill-typed values: ipv4, ipv6, mac, u16 sentinel
		mkTmpl(258, []string{"sourceIPv4Address", "sourceIPv6Address", "sourceMacAddress", "sourceTransportPort"}, []uint32{0, 0, 0, 0}),
		// a template too large for one message: 16400 one-byte fields = 16 + 4 + 4 + 65600 bytes
		c09Huge(),
		// fixed-length octet array (user-defined enterprise element) + u16 sentinel
		mkTmpl(260, []string{"verifFixedOctets8", "sourceTransportPort"}, []uint32{55555, 0}),
		// a re-definition of template 256 with four fields; it is only ever sent over a failing connection,
		// so it never reaches the wire and the three-field definition (if sent) stays in force
		mkTmpl(256, []string{"sourceIPv4Address", "destinationTransportPort", "packetDeltaCount", "protocolIdentifier"}, []uint32{0, 0, 0, 0}),
	}
}

func c09Huge() *expTmpl {
	names := make([]string, 16400)
	ents := make([]uint32, 16400)
	for i := range names {
		names[i] = "protocolIdentifier"
	}
	return mkTmpl(259, names, ents)
}

func c09Ops(sizes bool) []c09op {
	ops := []c09op{
		{"Tmpl(a)", "tmpl", 0, 0, 0}, {"Tmpl(b)", "tmpl", 1, 0, 0}, {"Tmpl(typed)", "tmpl", 2, 0, 0},
		{"Data(a,1)", "data", 0, 1, 0}, {"Data(a,2)", "data", 0, 2, 0}, {"Data(b,1)", "data", 1, 1, 0}, {"Data(typed,1)", "data", 2, 1, 0},
		{"Data(unknown id 999)", "unknown-id", 0, 1, 0},
		{"Data(a, one field too few)", "fieldcount", 0, 1, -1}, {"Data(a, one field too many)", "fieldcount", 0, 1, 1},
		{"Data(a, 2nd record one field too few)", "fieldcount2", 0, 2, -1},
		{"Send(set reset to Undefined)", "undefined", 0, 0, 0},
		{"Tmpl(b) with the connection write failing", "tmpl-writefail", 1, 0, 0},
		{"Tmpl(huge: 16400 fields, does not fit a message)", "tmpl-huge", 3, 0, 0},
		{"Data(huge,1)", "data", 3, 1, 0},
		{"Data(typed, IPv6 address in ipv4Address element)", "illtyped", 2, 1, 0},
		{"Data(typed, 4-byte slice in... 16-byte address element given 5 bytes)", "illtyped", 2, 1, 1},
		{"Data(typed, MAC of 5 bytes)", "illtyped", 2, 1, 2},
		{"Data(typed, MAC of 7 bytes)", "illtyped", 2, 1, 3},
		{"Data(typed, 2nd record IPv6 in ipv4Address)", "illtyped", 2, 2, 4},
		{"Data(typed, 4-byte IPv4 net.IP in ipv6Address: refused or sent as ::ffff:a.b.c.d)", "v4in6", 2, 2, 0},
		{"Tmpl(fixedoct)", "tmpl", 4, 0, 0}, {"Data(fixedoct,2)", "data", 4, 2, 0},
		{"Data(fixedoct, 3 octets for the 8-octet element)", "illtyped", 4, 1, 5},
		{"Data(fixedoct, 2nd record 9 octets for the 8-octet element)", "illtyped", 4, 2, 6},
		{"Data(fixedoct, no octets for the 8-octet element)", "illtyped", 4, 1, 7},
		{"Tmpl(a re-defined with 4 fields) with the connection write failing", "tmpl-writefail", 5, 0, 0},
		{"Data(4 fields for template a)", "data", 5, 1, 0},
	}
	if sizes {
		ops = []c09op{{"Tmpl(b)", "tmpl", 1, 0, 0}, {"Data(a,1) [no template a]", "unknown-a", 0, 1, 0}}
		for size := 65519; size <= 65540; size++ {
			ops = append(ops, c09op{fmt.Sprintf("Data(b, message size %d)", size), "size", 1, 1, size})
		}
		ops = append(ops, c09op{"Data(b, string of 65536 bytes)", "size", 1, 1, 65536 + 23})
		ops = append(ops, c09op{"Data(b, 2 records, total size 65535)", "size2", 1, 2, 65535}, c09op{"Data(b, 2 records, total size 65536)", "size2", 1, 2, 65536})
	}
	return ops
}

func (s *c09sys) Close() { vsched.EndSeq() }

func (s *c09sys) Apply(opi int) (v *xplore.Violation) {
	defer func() {
		if r := recover(); r != nil {
			v = xplore.V("panic", "%s panicked: %v", s.ops[opi].name, r)
		}
	}()
	op := s.ops[opi]
	x := s.x
	t := s.ts[op.t]
	now := vsched.S.Now
	var set entities.Set
	var ref [][][]byte
	mustFail := ""   // reason the model demands an error
	isTemplate := false
	switch op.kind {
	case "tmpl", "tmpl-writefail", "tmpl-huge":
		set, isTemplate = tmplSet(t), true
		if op.kind == "tmpl-huge" {
			mustFail = "the template set does not fit a message"
		}
		if op.kind == "tmpl-writefail" {
			x.conn.FailWrites = 1
			mustFail = "the connection write fails"
		}
	case "data":
		set, ref = dataSet(t, op.n, 5, opi%3)
		if op.t == 5 {
			mustFail = "a record's field count differs from the template's (the four-field re-definition never reached the wire)"
		}
	case "unknown-id", "unknown-a":
		tt := *t
		if op.kind == "unknown-id" {
			tt.ref.ID = 999
		}
		set, ref = dataSet(&tt, op.n, 5, 0)
		t = &tt
	case "fieldcount", "fieldcount2":
		set = entities.NewSet(false)
		set.PrepareSet(entities.Data, t.ref.ID)
		for r := 0; r < op.n; r++ {
			var els []entities.InfoElementWithValue
			for f, ie := range t.ies {
				e, _ := expValue(ie, r, f, 5)
				els = append(els, e)
			}
			if r == op.n-1 {
				if op.arg < 0 {
					els = els[:len(els)-1]
				} else {
					e, _ := expValue(t.ies[1], r, 9, 5)
					els = append(els, e)
				}
			}
			set.AddRecord(els, t.ref.ID)
		}
		mustFail = "a record's field count differs from the template's"
	case "undefined":
		set, _ = dataSet(t, 1, 5, 0)
		set.ResetSet()
		mustFail = "set type undefined"
	case "illtyped":
		set = entities.NewSet(false)
		set.PrepareSet(entities.Data, t.ref.ID)
		for r := 0; r < op.n; r++ {
			var els []entities.InfoElementWithValue
			for f, ie := range t.ies {
				e, _ := expValue(ie, r, f, 5)
				els = append(els, e)
			}
			if r == op.n-1 {
				switch op.arg {
				case 0, 4:
					els[0] = entities.NewIPAddressInfoElement(t.ies[0], net.ParseIP("2001:db8::1"))
				case 1:
					els[1] = entities.NewIPAddressInfoElement(t.ies[1], net.IP([]byte{1, 2, 3, 4, 5}))
				case 2:
					els[2] = entities.NewMacAddressInfoElement(t.ies[2], net.HardwareAddr([]byte{1, 2, 3, 4, 5}))
				case 3:
					els[2] = entities.NewMacAddressInfoElement(t.ies[2], net.HardwareAddr([]byte{1, 2, 3, 4, 5, 6, 7}))
				case 5:
					els[0] = entities.NewOctetArrayInfoElement(t.ies[0], []byte{1, 2, 3})
				case 6:
					els[0] = entities.NewOctetArrayInfoElement(t.ies[0], []byte{1, 2, 3, 4, 5, 6, 7, 8, 9})
				case 7:
					els[0] = entities.NewOctetArrayInfoElement(t.ies[0], []byte{})
				}
			}
			set.AddRecord(els, t.ref.ID)
		}
		mustFail = "a value cannot be encoded for its element"
	case "v4in6":
		// left open by the statement: an error (nothing written) or the faithful IPv4-mapped form; what
		// is never acceptable is some other byte pattern under a success return
		set = entities.NewSet(false)
		set.PrepareSet(entities.Data, t.ref.ID)
		for r := 0; r < op.n; r++ {
			var els []entities.InfoElementWithValue
			var raws [][]byte
			for f, ie := range t.ies {
				e, raw := expValue(ie, r, f, 5)
				els = append(els, e)
				raws = append(raws, raw)
			}
			if r == op.n-1 {
				els[1] = entities.NewIPAddressInfoElement(t.ies[1], net.IP([]byte{10, 0, 0, 1}))
				raws[1] = []byte{0, 0, 0, 0, 0, 0, 0, 0, 0, 0, 0xff, 0xff, 10, 0, 0, 1}
			}
			set.AddRecord(els, t.ref.ID)
			ref = append(ref, raws)
		}
		if x.sent[t.ref.ID] {
			before := len(x.conn.Writes)
			n, err := x.ep.SendSet(set)
			ws := x.newWrites()
			if err != nil {
				if len(ws) != 0 {
					return xplore.V("error-but-written", "%s: error %v yet %d message(s) written", op.name, err, len(ws))
				}
				x.seq = x.ep.VerifSeq()
				return nil
			}
			_ = before
			if len(ws) != 1 {
				return xplore.V("message-count", "%s: success with %d writes", op.name, len(ws))
			}
			x.seq += uint32(len(ref))
			if v := x.checkMessage(ws[0], n, now, t, false, ref); v != nil {
				v.Detail = op.name + ": " + v.Detail
				return v
			}
			return nil
		}
	case "size", "size2":
		// one variable-length string per record; message = 16 + 4 + sum(prefix + len)
		set = entities.NewSet(false)
		set.PrepareSet(entities.Data, t.ref.ID)
		total := op.arg - 20
		lens := []int{total - 3}
		if op.kind == "size2" {
			lens = []int{300, total - 3 - 303}
		}
		for r, L := range lens {
			b := bytes.Repeat([]byte{byte('a' + r)}, L)
			set.AddRecord([]entities.InfoElementWithValue{entities.NewStringInfoElement(t.ies[0], string(b))}, t.ref.ID)
			ref = append(ref, [][]byte{b})
		}
		if op.arg > 65535 {
			mustFail = fmt.Sprintf("message of %d bytes exceeds 65535", op.arg)
		}
	}
	if s.json && isTemplate {
		// nothing is written for a template in JSON mode, so neither its size nor a failing connection matters
		mustFail = ""
		x.conn.FailWrites = 0
	}
	if !isTemplate && mustFail == "" && !x.sent[t.ref.ID] {
		mustFail = fmt.Sprintf("no template with id %d was transmitted on this exporting process", t.ref.ID)
	}
	seqBefore := x.seq
	n, err := x.ep.SendSet(set)
	ws := x.newWrites()
	if err != nil {
		if len(ws) != 0 {
			return xplore.V("error-but-written", "%s: SendSet returned an error (%v) yet wrote %d message(s) to the connection", op.name, err, len(ws))
		}
		if x.conn.FailedWrites > 0 {
			x.conn.FailedWrites = 0
		}
		if mustFail == "" {
			return xplore.V("unexpected-error", "%s: valid send refused: %v", op.name, err)
		}
		// a failed attempt must not have consumed sequence numbers visible to later messages? The
		// statement only demands that later sends stay well-formed; the model follows the counter.
		x.seq = x.ep.VerifSeq()
		_ = seqBefore
		return nil
	}
	if mustFail != "" {
		if len(ws) == 0 {
			return xplore.V("silent-drop", "%s: SendSet reported success (%d bytes) but wrote nothing; an error was required because %s", op.name, n, mustFail)
		}
		kind := "invalid-transmitted"
		if op.kind == "illtyped" {
			kind = "altered-value-transmitted"
		} else if strings.HasPrefix(mustFail, "no template") {
			kind = "data-without-template"
		}
		return xplore.V(kind, "%s: transmitted %d bytes although %s", op.name, len(ws[0]), mustFail)
	}
	if s.json {
		if isTemplate {
			x.sent[t.ref.ID] = true
			return nil
		}
		if len(ws) != len(ref) {
			return xplore.V("message-count", "%s: a data set of %d records produced %d JSON documents", op.name, len(ref), len(ws))
		}
		total := 0
		for i, w := range ws {
			var doc map[string]interface{}
			if err := json.Unmarshal(w, &doc); err != nil || doc["ipfix"] == nil {
				return xplore.V("malformed", "%s: write #%d is not a JSON document with an ipfix member: %v (%.80q)", op.name, i, err, w)
			}
			total += len(w)
		}
		if n != total {
			return xplore.V("byte-count", "%s: SendSet reported %d bytes, %d were written", op.name, n, total)
		}
		return nil
	}
	if len(ws) != 1 {
		return xplore.V("message-count", "%s: one successful SendSet produced %d writes", op.name, len(ws))
	}
	if !isTemplate {
		x.seq += uint32(len(ref))
	}
	if v := x.checkMessage(ws[0], n, now, t, isTemplate, ref); v != nil {
		v.Detail = op.name + ": " + v.Detail
		return v
	}
	if isTemplate {
		x.sent[t.ref.ID] = true
	}
	return nil
}

func (s *c09sys) Canon() string {
	return fmt.Sprintf("seq=%d known=%v sent=%v", s.x.ep.VerifSeq(), s.x.ep.VerifTemplateIDs(), s.x.sent)
}

func c09Configs(tier string) []*xplore.Config {
	ts := c09Tmpls()
	hd, hs := 3, 2
	if tier == "thorough" {
		hd, hs = 4, 3
	}
	var out []*xplore.Config
	for _, proto := range []string{"tcp", "udp"} {
		proto := proto
		ops := c09Ops(false)
		out = append(out, &xplore.Config{
			Name: proto + ",faults", NumOps: len(ops), OpName: func(i int) string { return ops[i].name },
			New:       func() xplore.Sys { return &c09sys{x: newExpSession(proto, 99, 0, time.Unix(1_700_000_000, 0)), ops: ops, ts: ts} },
			HistDepth: hd,
		})
		if proto == "tcp" {
			// JSON mode: the same refusals must leave the connection untouched although records are written one by one
			var jops []c09op
			for _, o := range ops {
				if o.kind != "v4in6" && o.t != 3 && o.t != 4 && o.t != 5 { // (JSON mode cannot render octet arrays; a template "write" cannot fail there)
					jops = append(jops, o)
				}
			}
			out = append(out, &xplore.Config{
				Name: proto + ",json,faults", NumOps: len(jops), OpName: func(i int) string { return jops[i].name },
				New: func() xplore.Sys {
					return &c09sys{x: newExpSession(proto, 99, 0, time.Unix(1_700_000_000, 0), true), ops: jops, ts: ts, json: true}
				},
				HistDepth: hd,
			})
		}
		sops := c09Ops(true)
		out = append(out, &xplore.Config{
			Name: proto + ",sizes", NumOps: len(sops), OpName: func(i int) string { return sops[i].name },
			New:       func() xplore.Sys { return &c09sys{x: newExpSession(proto, 99, 0, time.Unix(1_700_000_000, 0)), ops: sops, ts: ts} },
			HistDepth: hs,
		})
	}
	return out
}

func runC09(tier, replay string) int {
	rep := common.NewReporter("C09")
	if tier == "replay" {
		return e1Replay("C09", replay, c09Configs("thorough"))
	}
	tot, ok := runE1(rep, c09Configs(tier))
	if tot == nil {
		if ok {
			return 0
		}
		return 2
	}
	ev := &common.Evidence{PropertyID: "C09", Tier: tier}
	ev.Coverage = common.Coverage{
		"states": tot.Traces, "transitions": tot.Trans, "traces_validated_against_impl": tot.Traces, "samples": tot.Samples,
		"evaluations": tot.Traces, "distinct_nontrivial": tot.Traces,
		"rule":       "every history up to hist_depth over valid sends mixed with each fault kind {unknown template id, field count -1/+1 (first and later records), undefined set type, template whose connection write fails, ill-typed values (IPv6 in ipv4Address, 5-byte ipv6Address, 5- and 7-byte MAC, in first and later records)} and, in the sizes configuration, every message size 65519..65540 plus a 65536-byte string and two-record sets at 65535/65536; oracle: error => connection log unchanged; success => bytes parse with refcodec to exactly the values supplied; data only after its template was written to the wire. states = histories",
		"exhaustive": tot.Exhaustive, "per_config": tot.PerCfg,
	}
	ev.Assumptions = []string{"an IPv4 address given to an ipv6Address element (encodable as v4-mapped) is not in the alphabet: the statement leaves it open"}
	ev.WallS = common.Since(rep.Start)
	ev.Violations = rep.Violations()
	common.WriteEvidence(ev)
	return rep.Finish()
}

var _ = registry.AntreaEnterpriseID
