package main

import (
	"errors"
	"fmt"
	"sort"
	"strings"
	"time"

	"github.com/vmware/go-ipfix/pkg/entities"
	"github.com/vmware/go-ipfix/pkg/intermediate"
	"github.com/vmware/go-ipfix/pkg/verifshim/vsched"

	"verifharness/aggfix"
	"verifharness/common"
	"verifharness/xplore"
)

func init() { checks["C06"] = runC06 }

var t0 = time.Unix(1_700_000_000, 0)

const unit = time.Second

type c06flow struct{ act, inact time.Time }

type c06op struct {
	name string
	kind byte // 'r' record(s) in one message, 'a' advance, 's' scan
	keys []int
	key  int
	d    int
	fail uint // bitmask of keys the callback fails on
	old  bool // the record carries an earlier flowEndSeconds than the flow has seen
}

type c06sys struct {
	A, I   time.Duration
	nkeys  int
	ops    []c06op
	ap     *intermediate.AggregationProcess
	model  map[int]*c06flow
	count  [3]uint32
	keyIdx map[intermediate.FlowKey]int
}

func c06Ops(nkeys int) []c06op {
	var ops []c06op
	for k := 0; k < nkeys; k++ {
		ops = append(ops, c06op{name: fmt.Sprintf("Rec(k%d)", k), kind: 'r', key: k, keys: []int{k}})
	}
	// a record that reports an earlier flow end than the flow has already seen (late or re-ordered): it is a
	// new record all the same and pushes the inactive deadline back
	ops = append(ops, c06op{name: "RecOld(k0)", kind: 'r', key: 0, keys: []int{0}, old: true})
	// a record the aggregation process cannot take in (its template lacks flowStartSeconds and httpVals)
	ops = append(ops, c06op{name: "RecBad(k0)", kind: 'b', key: 0, keys: []int{0}})
	// one message carrying records of several flows
	if nkeys == 2 {
		ops = append(ops, c06op{name: "Msg(k0,k1)", kind: 'r', keys: []int{0, 1}}, c06op{name: "Msg(k1,k0)", kind: 'r', keys: []int{1, 0}})
	} else {
		ops = append(ops, c06op{name: "Msg(k0,k1,k2)", kind: 'r', keys: []int{0, 1, 2}}, c06op{name: "Msg(k2,k0)", kind: 'r', keys: []int{2, 0}})
	}
	for _, d := range []int{1, 2, 4, 6} {
		ops = append(ops, c06op{name: fmt.Sprintf("Adv(%d)", d), kind: 'a', d: d})
	}
	for f := uint(0); f < 1<<uint(nkeys); f++ {
		var ks []string
		for k := 0; k < nkeys; k++ {
			if f>>uint(k)&1 == 1 {
				ks = append(ks, fmt.Sprintf("k%d", k))
			}
		}
		ops = append(ops, c06op{name: "Scan(fail={" + strings.Join(ks, ",") + "})", kind: 's', fail: f})
	}
	return ops
}

func newC06(A, I time.Duration, nkeys int, ops []c06op) *c06sys {
	vsched.BeginSeq(t0)
	ap, err := intermediate.InitAggregationProcess(intermediate.AggregationInput{
		MessageChan: make(chan *entities.Message), WorkerNum: 1, CorrelateFields: aggfix.CorrelateFields,
		AggregateElements: aggfix.Elements(), ActiveExpiryTimeout: A, InactiveExpiryTimeout: I,
	})
	if err != nil {
		panic(err)
	}
	s := &c06sys{A: A, I: I, nkeys: nkeys, ops: ops, ap: ap, model: map[int]*c06flow{}, keyIdx: map[intermediate.FlowKey]int{}}
	for i := 0; i < nkeys; i++ {
		s.keyIdx[aggfix.Keys[i].FlowKey()] = i
	}
	return s
}

func (s *c06sys) Close() { vsched.EndSeq() }

func minT(a, b time.Time) time.Time {
	if a.Before(b) {
		return a
	}
	return b
}

func rel(t, now time.Time) int { return int(t.Sub(now) / unit) }

// structural invariants over the snapshot; returns per-key deadlines found in the heap
func (s *c06sys) structural(snap intermediate.VerifSnap) (map[int]c06flow, *xplore.Violation) {
	heapOf := map[int]c06flow{}
	for pos, h := range snap.Heap {
		k, ok := s.keyIdx[h.Key]
		if !ok {
			return nil, xplore.V("heap-unknown-key", "heap position %d refers to key %v which is not one of the flows", pos, h.Key)
		}
		if h.Index != pos {
			return nil, xplore.V("heap-index", "heap position %d holds an item whose index field is %d", pos, h.Index)
		}
		if !h.InMap {
			return nil, xplore.V("heap-orphan", "scheduled entry for k%d refers to a flow that is not held", k)
		}
		if !h.RecordSame {
			return nil, xplore.V("heap-stale-record", "scheduled entry for k%d points to a record that is not the held one", k)
		}
		if _, dup := heapOf[k]; dup {
			return nil, xplore.V("heap-duplicate", "two scheduled entries for k%d", k)
		}
		heapOf[k] = c06flow{h.Active, h.Inactive}
		if pos > 0 {
			p := snap.Heap[(pos-1)/2]
			if minT(h.Active, h.Inactive).Before(minT(p.Active, p.Inactive)) {
				return nil, xplore.V("heap-order", "heap order violated between positions %d and %d", (pos-1)/2, pos)
			}
		}
	}
	for _, f := range snap.Flows {
		k := s.keyIdx[f.Key]
		if _, ok := heapOf[k]; !ok || !f.ItemInHeapPos {
			return nil, xplore.V("stranded-flow", "flow k%d is held but has no scheduled expiry (queue item index %d): it can never be exported or removed", k, f.ItemIndex)
		}
	}
	return heapOf, nil
}

func (s *c06sys) Apply(opi int) (v *xplore.Violation) {
	defer func() {
		if r := recover(); r != nil {
			v = xplore.V("panic", "%s panicked: %v", s.ops[opi].name, r)
		}
	}()
	op := s.ops[opi]
	now := vsched.S.Now
	switch op.kind {
	case 'a':
		vsched.SeqAdvance(time.Duration(op.d) * unit)
	case 'r':
		var recs []entities.Record
		for _, k := range op.keys {
			s.count[k]++
			c := s.count[k]
			end := 1000 + c
			if op.old {
				end = 950 // before every end time an ordinary record carries
			}
			recs = append(recs, aggfix.Record(aggfix.Spec{Key: k, FlowType: 1, From: aggfix.Both, Start: 900, End: end,
				PktTot: uint64(c) * 10, PktDelta: 10, OctTot: uint64(c) * 1000, OctDelta: 1000, TCPState: "ESTABLISHED"}))
		}
		if err := s.ap.AggregateMsgByFlowKey(aggfix.Msg(recs...)); err != nil {
			return xplore.V("aggregate-error", "%s: %v", op.name, err)
		}
		for _, k := range op.keys {
			if f, ok := s.model[k]; ok {
				f.inact = now.Add(s.I)
			} else {
				s.model[k] = &c06flow{act: now.Add(s.A), inact: now.Add(s.I)}
			}
		}
	case 'b':
		k := op.key
		rec := aggfix.Record(aggfix.Spec{Key: k, FlowType: 1, From: aggfix.Both, Start: 900, End: 1000 + s.count[k] + 1,
			PktTot: uint64(s.count[k]+1) * 10, PktDelta: 10, OctTot: uint64(s.count[k]+1) * 1000, OctDelta: 1000, TCPState: "ESTABLISHED", OmitHTTPVals: true, OmitStart: true})
		err := s.ap.AggregateMsgByFlowKey(aggfix.Msg(rec))
		// the statement does not say what a refused record does to the deadlines of a flow that exists, nor
		// that it must be refused: the model follows the implementation there. What it does say is checked
		// below as for every operation: held <=> scheduled, deadlines in the future of their setting.
		snap := s.ap.VerifSnapshot()
		heapOf, sv := s.structural(snap)
		if sv != nil {
			sv.Detail = fmt.Sprintf("after %s (ingest returned %v): %s", op.name, err, sv.Detail)
			return sv
		}
		h, held := heapOf[k]
		f, known := s.model[k]
		switch {
		case held && !known:
			s.count[k]++
			s.model[k] = &c06flow{act: now.Add(s.A), inact: now.Add(s.I)}
		case held && known:
			if h.inact.Equal(now.Add(s.I)) {
				f.inact = now.Add(s.I)
				s.count[k]++
			}
		case !held && known:
			return xplore.V("flow-lost", "%s: the flow was held before a record that was refused (%v) and is gone after it", op.name, err)
		}
	case 's':
		var fired []int
		err := s.ap.ForAllExpiredFlowRecordsDo(func(key intermediate.FlowKey, rec *intermediate.AggregationFlowRecord) error {
			k, ok := s.keyIdx[key]
			if !ok {
				k = -1
			}
			fired = append(fired, k)
			if k >= 0 && op.fail>>uint(k)&1 == 1 {
				return errors.New("injected callback failure")
			}
			return nil
		})
		// (ii) fired sequence
		seen := map[int]bool{}
		var prev time.Time
		failedKey := -1
		for i, k := range fired {
			f, ok := s.model[k]
			if k < 0 || !ok {
				return xplore.V("callback-unknown", "%s: callback invoked for a flow that is not held (%d)", op.name, k)
			}
			if seen[k] {
				return xplore.V("callback-twice", "%s: flow k%d handed to the callback twice in one scan (sequence %v)", op.name, k, fired)
			}
			seen[k] = true
			dl := minT(f.act, f.inact)
			if dl.After(now) {
				return xplore.V("callback-early", "%s: flow k%d handed to the callback %d units before its earliest deadline", op.name, k, rel(dl, now))
			}
			if i > 0 && dl.Before(prev) {
				return xplore.V("callback-order", "%s: callbacks not in deadline order: %v (relative deadlines %s)", op.name, fired, s.relModel(now))
			}
			prev = dl
			if op.fail>>uint(k)&1 == 1 {
				failedKey = k
				if i != len(fired)-1 {
					return xplore.V("scan-continued-after-error", "%s: callback failed on k%d but the scan went on: %v", op.name, k, fired)
				}
			}
		}
		if failedKey >= 0 && err == nil {
			return xplore.V("error-swallowed", "%s: callback failed on k%d but the scan returned nil", op.name, failedKey)
		}
		if failedKey < 0 && err != nil {
			return xplore.V("scan-error", "%s: scan returned %v although no callback failed", op.name, err)
		}
		// every strictly overdue flow must have been fired, unless the scan was aborted before reaching it
		for k, f := range s.model {
			dl := minT(f.act, f.inact)
			if dl.Before(now) && !seen[k] {
				if failedKey < 0 {
					return xplore.V("callback-missed", "%s: flow k%d is %d units past its deadline but was not handed to the callback (fired %v)", op.name, k, -rel(dl, now), fired)
				}
				fd := minT(s.model[failedKey].act, s.model[failedKey].inact)
				if dl.Before(fd) {
					return xplore.V("callback-missed", "%s: flow k%d (deadline earlier than the failing k%d) was skipped", op.name, k, failedKey)
				}
			}
		}
		// post-state per key
		snap := s.ap.VerifSnapshot()
		heapOf, sv := s.structural(snap)
		if sv != nil {
			sv.Detail = op.name + ": " + sv.Detail
			return sv
		}
		for k, f := range s.model {
			h, present := heapOf[k]
			switch {
			case !seen[k]:
				if !present || !h.act.Equal(f.act) || !h.inact.Equal(f.inact) {
					return xplore.V("untouched-changed", "%s: flow k%d was not due/reached but changed: present=%v deadlines (%d,%d) expected (%d,%d)", op.name, k, present, rel(h.act, now), rel(h.inact, now), rel(f.act, now), rel(f.inact, now))
				}
			case k == failedKey:
				if !present {
					return xplore.V("failed-flow-lost", "%s: callback failed on k%d and the flow was removed without having been exported", op.name, k)
				}
				// the active deadline is "re-armed after each active export": a hand-over that failed exported
				// nothing, so the deadlines stand and the next scan must offer the flow again
				if !h.act.Equal(f.act) || !h.inact.Equal(f.inact) {
					return xplore.V("failed-export-rearmed", "%s: callback failed on k%d, yet its deadlines moved from (%d,%d) to (%d,%d): the flow was not exported but will not be offered again until then", op.name, k, rel(f.act, now), rel(f.inact, now), rel(h.act, now), rel(h.inact, now))
				}
			default:
				if f.inact.Before(now) {
					if present {
						return xplore.V("inactive-kept", "%s: flow k%d passed its inactive deadline by %d units, was exported, but is still held", op.name, k, -rel(f.inact, now))
					}
					delete(s.model, k)
				} else if f.inact.Equal(now) {
					// boundary: removal or re-arming both acceptable
					if !present {
						delete(s.model, k)
					} else {
						*f = h
					}
				} else {
					if !present {
						return xplore.V("active-removed", "%s: flow k%d expired actively (inactive deadline %d units ahead) but was removed", op.name, k, rel(f.inact, now))
					}
					if !h.act.Equal(now.Add(s.A)) || !h.inact.Equal(f.inact) {
						return xplore.V("active-rearm", "%s: after active expiry k%d has deadlines (%d,%d), expected (%d,%d)", op.name, k, rel(h.act, now), rel(h.inact, now), int(s.A/unit), rel(f.inact, now))
					}
					*f = h
				}
			}
		}
		if err == nil {
			for k, f := range s.model {
				if minT(f.act, f.inact).Before(now) {
					return xplore.V("overdue-after-scan", "%s: scan returned nil but k%d is still overdue", op.name, k)
				}
			}
		}
	}
	// after every op: structure + model agreement + advertised expiry
	now = vsched.S.Now
	snap := s.ap.VerifSnapshot()
	heapOf, sv := s.structural(snap)
	if sv != nil {
		sv.Detail = "after " + op.name + ": " + sv.Detail
		return sv
	}
	if len(heapOf) != len(s.model) {
		return xplore.V("flow-set", "after %s: held flows %v, model %s", op.name, heapOf, s.relModel(now))
	}
	for k, f := range s.model {
		h, ok := heapOf[k]
		if !ok || !h.act.Equal(f.act) || !h.inact.Equal(f.inact) {
			return xplore.V("deadline-mismatch", "after %s: k%d deadlines (%d,%d) present=%v, model (%d,%d)", op.name, k, rel(h.act, now), rel(h.inact, now), ok, rel(f.act, now), rel(f.inact, now))
		}
	}
	if n := s.ap.GetNumFlows(); int(n) != len(s.model) {
		return xplore.V("num-flows", "after %s: GetNumFlows=%d, model holds %d", op.name, n, len(s.model))
	}
	exp := s.ap.GetExpiryFromExpirePriorityQueue()
	if len(s.model) == 0 {
		want := s.A
		if s.I < want {
			want = s.I
		}
		if exp != want {
			return xplore.V("advertised-expiry", "after %s: no flows, advertised %v, expected min(active,inactive)=%v", op.name, exp, want)
		}
	} else {
		var earliest time.Time
		first := true
		for _, f := range s.model {
			d := minT(f.act, f.inact)
			if first || d.Before(earliest) {
				earliest, first = d, false
			}
		}
		if !earliest.Before(now) {
			if want := intermediate.MinExpiryTime + earliest.Sub(now); exp != want {
				return xplore.V("advertised-expiry", "after %s: advertised %v, earliest deadline is %v ahead (expected %v)", op.name, exp, earliest.Sub(now), want)
			}
		} else if exp < 0 || exp > intermediate.MinExpiryTime {
			return xplore.V("advertised-expiry", "after %s: earliest deadline overdue, advertised %v not within [0, %v]", op.name, exp, intermediate.MinExpiryTime)
		}
	}
	return nil
}

func (s *c06sys) relModel(now time.Time) string {
	var ks []int
	for k := range s.model {
		ks = append(ks, k)
	}
	sort.Ints(ks)
	var sb strings.Builder
	for _, k := range ks {
		fmt.Fprintf(&sb, "k%d:(%d,%d) ", k, rel(s.model[k].act, now), rel(s.model[k].inact, now))
	}
	return sb.String()
}

// Canon: heap array (key, deadlines relative to now; overdue deadlines abstracted to their dense
// rank, which preserves every comparison the code can make) + held keys.
func (s *c06sys) Canon() string {
	return s.Canon2(s.ap.VerifSnapshotNoLock(), vsched.S.Now)
}

func (s *c06sys) Canon2(snap intermediate.VerifSnap, now time.Time) string {
	var overdue []int64
	for _, h := range snap.Heap {
		for _, t := range []time.Time{h.Active, h.Inactive} {
			if t.Before(now) {
				overdue = append(overdue, int64(t.Sub(now)))
			}
		}
	}
	sort.Slice(overdue, func(i, j int) bool { return overdue[i] < overdue[j] })
	rank := map[int64]int{}
	for _, o := range overdue {
		if _, ok := rank[o]; !ok {
			rank[o] = len(rank)
		}
	}
	r := func(t time.Time) string {
		if t.Before(now) {
			return fmt.Sprintf("o%d", rank[int64(t.Sub(now))])
		}
		return fmt.Sprintf("+%d", rel(t, now))
	}
	var sb strings.Builder
	for _, h := range snap.Heap {
		fmt.Fprintf(&sb, "k%d:%s,%s|", s.keyIdx[h.Key], r(h.Active), r(h.Inactive))
	}
	var ks []int
	for _, f := range snap.Flows {
		ks = append(ks, s.keyIdx[f.Key])
	}
	sort.Ints(ks)
	fmt.Fprintf(&sb, "map%v", ks)
	return sb.String()
}

func c06Configs(tier string) []*xplore.Config {
	type cf struct {
		A, I  int
		nkeys int
		hd    int
		sd    int
	}
	var cfs []cf
	if tier == "thorough" {
		cfs = []cf{{4, 6, 2, 6, 40}, {6, 4, 2, 6, 40}, {4, 6, 3, 5, 12}, {6, 4, 3, 4, 0}, {4, 4, 2, 6, 40}}
	} else {
		cfs = []cf{{4, 6, 2, 5, 30}, {6, 4, 2, 5, 30}, {4, 6, 3, 4, 0}}
	}
	var out []*xplore.Config
	for _, c := range cfs {
		c := c
		ops := c06Ops(c.nkeys)
		out = append(out, &xplore.Config{
			Name: fmt.Sprintf("active=%d,inactive=%d,keys=%d", c.A, c.I, c.nkeys), NumOps: len(ops),
			OpName: func(i int) string { return ops[i].name },
			New:    func() xplore.Sys { return newC06(time.Duration(c.A)*unit, time.Duration(c.I)*unit, c.nkeys, ops) },
			HistDepth: c.hd, StateDepth: c.sd, MaxStates: 400000,
			Interesting: func(cn string) bool { return strings.Contains(cn, "o") },
		})
	}
	return out
}

func runC06(tier, replay string) int {
	rep := common.NewReporter("C06")
	if tier == "replay" {
		return e1Replay("C06", replay, c06Configs("thorough"))
	}
	cfgs := c06Configs(tier)
	tot, ok := runE1(rep, cfgs)
	if tot == nil {
		if ok {
			return 0
		}
		return 2
	}
	ev := &common.Evidence{PropertyID: "C06", Tier: tier}
	ev.Coverage = common.Coverage{
		"states": tot.States, "transitions": tot.Trans, "traces_validated_against_impl": tot.Traces, "samples": tot.Samples,
		"evaluations": tot.Traces, "distinct_nontrivial": tot.Interesting,
		"rule":       "pass (a): every history over {Rec(k), RecBad(k0) (a record that cannot be set up for aggregation), one message carrying records of several flows, Adv(1|2|4|6), Scan(fail set F) for every F subset of keys} up to hist_depth on a fresh AggregationProcess under the virtual clock (exact time, so deadline == now is reached), checked after every op against the expiry model and the map/heap snapshot; pass (b): BFS de-duplicated on (heap array with deadlines relative to now, overdue ones abstracted to dense ranks) until closure. distinct_nontrivial = distinct reachable states holding at least one overdue flow",
		"exhaustive": tot.Exhaustive && tot.ClosedAll, "closed": tot.ClosedAll, "per_config": tot.PerCfg,
	}
	ev.Assumptions = []string{"a deadline exactly equal to the scan time may or may not fire, and an inactive deadline equal to the scan time may or may not remove (the statement says 'has passed')", "a callback that returns an error has exported nothing: the flow keeps its deadlines and is offered again by the next scan"}
	ev.WallS = common.Since(rep.Start)
	ev.Violations = rep.Violations()
	common.WriteEvidence(ev)
	return rep.Finish()
}
