// Command shim hosts the checks that run on the mechanically rewritten packages (flavour "shim").
package main

import (
	"flag"
	"fmt"
	"os"

	"k8s.io/klog/v2"

	"github.com/vmware/go-ipfix/pkg/registry"

	"verifharness/colmodel"
)

type checkFn func(tier string, replay string) int

var checks = map[string]checkFn{}

type discard struct{}

func (discard) Write(p []byte) (int, error) { return len(p), nil }

func main() {
	if len(os.Args) < 3 {
		fmt.Fprintln(os.Stderr, "usage: shim <Cnn> quick|thorough | shim <Cnn> --replay <file>")
		os.Exit(2)
	}
	fs := flag.NewFlagSet("klog", flag.ContinueOnError)
	klog.InitFlags(fs)
	fs.Set("logtostderr", "false")
	fs.Set("alsologtostderr", "false")
	fs.Set("stderrthreshold", "FATAL")
	klog.SetOutput(discard{})
	klog.LogToStderr(false)
	registry.LoadRegistry()
	colmodel.SnapshotRegistry([]uint32{0, registry.IANAReversedEnterpriseID, registry.AntreaEnterpriseID})
	id := os.Args[1]
	fn, ok := checks[id]
	if !ok {
		fmt.Fprintf(os.Stderr, "unknown check %s\n", id)
		os.Exit(2)
	}
	tier, replay := os.Args[2], ""
	if tier == "--replay" {
		if len(os.Args) < 4 {
			os.Exit(2)
		}
		replay = os.Args[3]
		tier = "replay"
	}
	os.Exit(fn(tier, replay))
}
