package main

import (
	"fmt"
	"sort"
	"strings"
	"time"

	"github.com/vmware/go-ipfix/pkg/entities"
	"github.com/vmware/go-ipfix/pkg/intermediate"
	"github.com/vmware/go-ipfix/pkg/verifshim/vsched"

	"verifharness/aggfix"
	"verifharness/common"
)

func init() { checks["C13"] = runC13 }

// ---- operations ----

type c13op struct {
	name string
	run  func(ap *intermediate.AggregationProcess) string
}

func c13rec(name string, sp aggfix.Spec) c13op {
	return c13op{name, func(ap *intermediate.AggregationProcess) string {
		err := ap.AggregateMsgByFlowKey(aggfix.Msg(aggfix.Record(sp)))
		return fmt.Sprint(err)
	}}
}

func c13values(r entities.Record) string {
	vals := implValues(r)
	var names []string
	for n := range vals {
		names = append(names, n)
	}
	sort.Strings(names)
	var sb strings.Builder
	for _, n := range names {
		if strings.Contains(n, "Count") || strings.Contains(n, "hroughput") || strings.Contains(n, "flowEnd") {
			fmt.Fprintf(&sb, "%s=%s ", n, vals[n])
		}
	}
	return sb.String()
}

func c13scan(reset bool) c13op {
	return c13op{"Scan", func(ap *intermediate.AggregationProcess) string {
		var out []string
		err := ap.ForAllExpiredFlowRecordsDo(func(key intermediate.FlowKey, rec *intermediate.AggregationFlowRecord) error {
			out = append(out, fmt.Sprintf("%v ready=%v {%s}", key, rec.ReadyToSend, c13values(rec.Record)))
			if reset {
				return ap.ResetStatAndThroughputElementsInRecord(rec.Record)
			}
			return nil
		})
		return fmt.Sprintf("exported=%v err=%v", out, err)
	}}
}

// c13scanFail: the export callback refuses every record (a collector that is down): the scan reports the
// error and the process carries on
func c13scanFail() c13op {
	return c13op{"Scan(callback fails)", func(ap *intermediate.AggregationProcess) string {
		var out []string
		err := ap.ForAllExpiredFlowRecordsDo(func(key intermediate.FlowKey, rec *intermediate.AggregationFlowRecord) error {
			out = append(out, fmt.Sprintf("%v ready=%v {%s}", key, rec.ReadyToSend, c13values(rec.Record)))
			return fmt.Errorf("export failed")
		})
		return fmt.Sprintf("offered=%v err=%v", out, err != nil)
	}}
}

func c13query(k int) c13op {
	return c13op{fmt.Sprintf("GetRecords(k%d)", k), func(ap *intermediate.AggregationProcess) string {
		fk := aggfix.Keys[k].FlowKey()
		recs := ap.GetRecords(&fk)
		var parts []string
		for _, m := range recs {
			var names []string
			for n := range m {
				if strings.Contains(n, "Count") {
					names = append(names, n)
				}
			}
			sort.Strings(names)
			s := ""
			for _, n := range names {
				s += fmt.Sprintf("%s=%v ", n, m[n])
			}
			parts = append(parts, s)
		}
		return fmt.Sprint(parts)
	}}
}

// retained query results: what a query returned must not change afterwards
var c13retained []struct {
	name string
	recs []map[string]interface{}
	then string
}

func c13renderAll(recs []map[string]interface{}) string {
	var parts []string
	for _, m := range recs {
		var names []string
		for n := range m {
			names = append(names, n)
		}
		sort.Strings(names)
		s := ""
		for _, n := range names {
			s += fmt.Sprintf("%s=%v ", n, m[n])
		}
		parts = append(parts, s)
	}
	sort.Strings(parts)
	return strings.Join(parts, " | ")
}

// c13queryAll: GetRecords with no filter (all flows) or a partial filter; the result is retained.
func c13queryAll(partial bool) c13op {
	name := "GetRecords(all)"
	if partial {
		name = "GetRecords(partial: protocol only)"
	}
	return c13op{name, func(ap *intermediate.AggregationProcess) string {
		var recs []map[string]interface{}
		if partial {
			recs = ap.GetRecords(&intermediate.FlowKey{Protocol: 6})
		} else {
			recs = ap.GetRecords(nil)
		}
		then := c13renderAll(recs)
		c13retained = append(c13retained, struct {
			name string
			recs []map[string]interface{}
			then string
		}{name, recs, then})
		return then
	}}
}

var c13numFlows = c13op{"GetNumFlows", func(ap *intermediate.AggregationProcess) string { return fmt.Sprint(ap.GetNumFlows()) }}
var c13expiry = c13op{"GetExpiry", func(ap *intermediate.AggregationProcess) string {
	return fmt.Sprint(ap.GetExpiryFromExpirePriorityQueue())
}}

// ---- scenario description ----

type c13scn struct {
	name    string
	setup   func() *intermediate.AggregationProcess // runs inside the scheduler (sequentially)
	threads [][]c13op
	pool    bool // feed the ops of thread 0 through the built-in worker pool instead
}

func c13new(msgCh chan *entities.Message, workers int) *intermediate.AggregationProcess {
	intermediate.MaxRetries = 2
	ap, err := intermediate.InitAggregationProcess(intermediate.AggregationInput{
		MessageChan: msgCh, WorkerNum: workers, CorrelateFields: aggfix.CorrelateFields,
		AggregateElements: aggfix.Elements(), ActiveExpiryTimeout: 4 * unit, InactiveExpiryTimeout: 6 * unit,
	})
	if err != nil {
		panic(err)
	}
	return ap
}

func c13final(ap *intermediate.AggregationProcess) string {
	snap := ap.VerifSnapshotNoLock()
	keyIdx := map[intermediate.FlowKey]int{}
	for i := range aggfix.Keys {
		keyIdx[aggfix.Keys[i].FlowKey()] = i
	}
	c6 := &c06sys{keyIdx: keyIdx}
	if _, v := c6.structural(snap); v != nil {
		return "STRUCTURE VIOLATED: " + v.Error()
	}
	var parts []string
	for _, f := range snap.Flows {
		parts = append(parts, fmt.Sprintf("k%d ready=%v filled=%v retries=%d {%s} corr=%v", keyIdx[f.Key], f.ReadyToSend, f.CorrFilled, f.Retries, c13values(f.Record.Record), corrValues(f.Record.Record)))
	}
	sort.Strings(parts)
	// heap as a multiset of (key, deadlines): the array layout may legitimately differ between orders
	var hp []string
	now := vsched.VNow()
	for _, h := range snap.Heap {
		hp = append(hp, fmt.Sprintf("k%d:%d,%d", keyIdx[h.Key], rel(h.Active, now), rel(h.Inactive, now)))
	}
	sort.Strings(hp)
	return strings.Join(parts, "; ") + " | heap " + strings.Join(hp, " ")
}

type c13obs struct {
	thread, idx int
	name        string
	inv, resp   int
	res         string
}

// sequential reference: the implementation itself, one operation at a time, in the given order
func c13sequential(sc *c13scn, order [][2]int) ([]string, string) {
	vsched.BeginSeq(t0)
	defer vsched.EndSeq()
	c13retained = nil
	ap := sc.setup()
	res := make([]string, len(order))
	for i, o := range order {
		// an operation that cannot complete even when run alone (a lock left held by an earlier one) must not
		// take the checker down: no concurrent execution will match this order
		func() {
			defer func() {
				if r := recover(); r != nil {
					res[i] = fmt.Sprintf("did not complete when run sequentially: %v", r)
				}
			}()
			res[i] = sc.threads[o[0]][o[1]].run(ap)
		}()
		if strings.HasPrefix(res[i], "did not complete") {
			return res, "unreachable"
		}
	}
	return res, c13final(ap)
}

type c13lin struct {
	order [][2]int
	res   map[[2]int]string
	final string
}

func c13allSequential(sc *c13scn) []c13lin {
	// all interleavings of the threads' op sequences (program order kept)
	var out []c13lin
	pos := make([]int, len(sc.threads))
	var cur [][2]int
	var rec func()
	rec = func() {
		done := true
		for t := range sc.threads {
			if pos[t] < len(sc.threads[t]) {
				done = false
				cur = append(cur, [2]int{t, pos[t]})
				pos[t]++
				rec()
				pos[t]--
				cur = cur[:len(cur)-1]
			}
		}
		if done {
			order := append([][2]int{}, cur...)
			res, fin := c13sequential(sc, order)
			m := map[[2]int]string{}
			for i, o := range order {
				m[o] = res[i]
			}
			out = append(out, c13lin{order, m, fin})
		}
	}
	rec()
	return out
}

func c13Scenario(sc *c13scn) *vsched.Scenario {
	var lins []c13lin
	var last []c13obs
	var lastFinal string
	main := func() {
		var msgCh chan *entities.Message
		_ = msgCh
		c13retained = nil
		ap := sc.setup()
		var obs []c13obs
		var ths []*vsched.Thread
		for ti := range sc.threads {
			ti := ti
			ths = append(ths, vsched.Go(fmt.Sprintf("T%d", ti), func() {
				for oi, op := range sc.threads[ti] {
					inv := vsched.StepNo()
					res := op.run(ap)
					obs = append(obs, c13obs{ti, oi, op.name, inv, vsched.StepNo(), res})
				}
			}))
		}
		vsched.Join(ths...)
		for _, r := range c13retained {
			if now := c13renderAll(r.recs); now != r.then {
				vsched.Fail("query-result-mutated", "the result of %s changed after it had been returned (it shares storage with the live records):\n  then: %s\n  now:  %s", r.name, r.then, now)
			}
		}
		lastFinal = c13final(ap)
		last = obs
		sort.Slice(obs, func(i, j int) bool {
			if obs[i].thread != obs[j].thread {
				return obs[i].thread < obs[j].thread
			}
			return obs[i].idx < obs[j].idx
		})
		for _, o := range obs {
			vsched.Logf("T%d.%d %s -> %s", o.thread, o.idx, o.name, o.res)
		}
		vsched.Logf("final: %s", lastFinal)
	}
	check := func(o *vsched.Outcome) *vsched.Problem {
		if lins == nil {
			lins = c13allSequential(sc)
		}
		if strings.HasPrefix(lastFinal, "STRUCTURE VIOLATED") {
			return &vsched.Problem{Kind: "structure", Detail: lastFinal}
		}
		// a linearization: a sequential order consistent with real time whose results and final state match
		for _, l := range lins {
			ok := l.final == lastFinal
			for _, ob := range last {
				if !ok {
					break
				}
				ok = l.res[[2]int{ob.thread, ob.idx}] == ob.res
			}
			if !ok {
				continue
			}
			// real-time order: if a responded before b was invoked, a must precede b
			posOf := map[[2]int]int{}
			for i, x := range l.order {
				posOf[x] = i
			}
			rt := true
			for _, a := range last {
				for _, b := range last {
					if a.resp < b.inv && posOf[[2]int{a.thread, a.idx}] > posOf[[2]int{b.thread, b.idx}] {
						rt = false
					}
				}
			}
			if rt {
				return nil
			}
		}
		var sb strings.Builder
		for _, ob := range last {
			fmt.Fprintf(&sb, "T%d.%d %s [%d,%d] -> %s\n", ob.thread, ob.idx, ob.name, ob.inv, ob.resp, ob.res)
		}
		fmt.Fprintf(&sb, "final: %s\n", lastFinal)
		fmt.Fprintf(&sb, "no sequential order of these %d operations (out of %d orders) produces these results and this final state", len(last), len(lins))
		return &vsched.Problem{Kind: "not-linearizable", Detail: sb.String()}
	}
	return &vsched.Scenario{Name: sc.name, Main: main, Check: check, TrackRaces: true, Start: t0}
}

func c13spec(key int, from int, flowType uint8, n uint32) aggfix.Spec {
	sp := aggfix.Spec{Key: key, FlowType: flowType, Egress: 1, From: from, Start: 1000, End: 1000 + 2*n,
		PktTot: uint64(n) * 10, PktDelta: uint64(n) + 2, OctTot: uint64(n) * 1000, OctDelta: uint64(n) * 100, RPktTot: uint64(n) * 3, RPktDelta: 3, ROctTot: uint64(n) * 300, ROctDelta: 300, TCPState: "ESTABLISHED"}
	if from == aggfix.Src {
		sp.SrcNS, sp.SrcNode = "ns-s", "node-s"
	} else if from == aggfix.Dst {
		sp.DstNS, sp.DstNode, sp.SvcPort = "ns-d", "node-d", 8080
		sp.End++
	}
	return sp
}

func c13Scenarios(tier string) []*c13scn {
	mk := func() *intermediate.AggregationProcess { return c13new(make(chan *entities.Message), 1) }
	ingest := func(ap *intermediate.AggregationProcess, sp aggfix.Spec) {
		if err := ap.AggregateMsgByFlowKey(aggfix.Msg(aggfix.Record(sp))); err != nil {
			panic(err)
		}
	}
	adv := func(d int) {
		if vsched.S != nil {
			vsched.S.Now = vsched.S.Now.Add(time.Duration(d) * unit)
		}
	}
	scs := []*c13scn{
		// first on purpose: nothing has touched the process yet, so whatever the code under test keeps in
		// package-level variables (caches keyed by address, interned strings) is still cold when two workers
		// bring in unrelated flows with addresses never seen before
		{name: "S0-unrelated-new-flows-on-a-cold-process", setup: mk, threads: [][]c13op{
			{c13rec("Agg(k1,new)", c13spec(1, aggfix.Both, 1, 1))},
			{c13rec("Agg(k2,new)", c13spec(2, aggfix.Both, 1, 1))},
		}},
		{name: "S1-same-key-src-dst-vs-scan", setup: func() *intermediate.AggregationProcess {
			ap := mk()
			ingest(ap, c13spec(0, aggfix.Src, 2, 1))
			adv(5)
			return ap
		}, threads: [][]c13op{
			{c13rec("Agg(k0,dst)", c13spec(0, aggfix.Dst, 2, 2))},
			{c13rec("Agg(k0,src)", c13spec(0, aggfix.Src, 2, 3))},
			{c13scan(true)},
		}},
		{name: "S2-same-key-deltas-vs-queries", setup: func() *intermediate.AggregationProcess {
			ap := mk()
			ingest(ap, c13spec(1, aggfix.Both, 1, 1))
			return ap
		}, threads: [][]c13op{
			{c13rec("Agg(k1,#2)", c13spec(1, aggfix.Both, 1, 2))},
			{c13rec("Agg(k1,#3)", c13spec(1, aggfix.Both, 1, 3))},
			{c13query(1), c13numFlows, c13expiry},
		}},
		{name: "S3-different-keys-vs-resetting-scan", setup: func() *intermediate.AggregationProcess {
			ap := mk()
			ingest(ap, c13spec(1, aggfix.Both, 1, 1))
			ingest(ap, c13spec(2, aggfix.Both, 1, 1))
			adv(5)
			return ap
		}, threads: [][]c13op{
			{c13rec("Agg(k1,#2)", c13spec(1, aggfix.Both, 1, 2))},
			{c13rec("Agg(k0,new,intra)", c13spec(0, aggfix.Both, 1, 1))},
			{c13scan(true)},
		}},
		{name: "S5-first-records-of-a-new-flow", setup: mk, threads: [][]c13op{
			{c13rec("Agg(k0,src,first)", c13spec(0, aggfix.Src, 2, 1))},
			{c13rec("Agg(k0,dst,first)", c13spec(0, aggfix.Dst, 2, 1))},
			{c13numFlows},
		}},
		{name: "S6-ingest-during-exporting-scan", setup: func() *intermediate.AggregationProcess {
			ap := mk()
			ingest(ap, c13spec(1, aggfix.Both, 1, 1))
			adv(7) // past the inactive deadline: the scan exports and removes
			return ap
		}, threads: [][]c13op{
			{c13rec("Agg(k1,#2)", c13spec(1, aggfix.Both, 1, 2))},
			{c13scan(true), c13query(1)},
		}},
	}
	scs = append(scs, &c13scn{name: "S10-failing-export-vs-ingest-and-query", setup: func() *intermediate.AggregationProcess {
		ap := mk()
		ingest(ap, c13spec(1, aggfix.Both, 1, 1))
		adv(5)
		return ap
	}, threads: [][]c13op{
		{c13scanFail(), c13numFlows},
		{c13rec("Agg(k1,#2)", c13spec(1, aggfix.Both, 1, 2))},
	}})
	dstWithIP := c13spec(0, aggfix.Dst, 2, 2)
	dstWithIP.ClusterIP = "10.96.0.10"
	scs = append(scs,
		&c13scn{name: "S8-unfiltered-queries-vs-ingest", setup: func() *intermediate.AggregationProcess {
			ap := mk()
			ingest(ap, c13spec(1, aggfix.Both, 1, 1))
			return ap
		}, threads: [][]c13op{
			{c13rec("Agg(k1,#2)", c13spec(1, aggfix.Both, 1, 2))},
			{c13queryAll(false), c13queryAll(true)},
			{c13rec("Agg(k2,new)", c13spec(2, aggfix.Both, 1, 1))},
		}},
		&c13scn{name: "S9-retained-query-result-vs-correlation", setup: func() *intermediate.AggregationProcess {
			ap := mk()
			ingest(ap, c13spec(0, aggfix.Src, 2, 1))
			return ap
		}, threads: [][]c13op{
			{c13queryAll(false)},
			{c13rec("Agg(k0,dst,clusterIP)", dstWithIP)},
		}})
	if tier == "thorough" {
		scs = append(scs, &c13scn{name: "S7-four-threads", setup: func() *intermediate.AggregationProcess {
			ap := mk()
			ingest(ap, c13spec(0, aggfix.Src, 2, 1))
			ingest(ap, c13spec(1, aggfix.Both, 1, 1))
			adv(5)
			return ap
		}, threads: [][]c13op{
			{c13rec("Agg(k0,dst)", c13spec(0, aggfix.Dst, 2, 2))},
			{c13rec("Agg(k1,#2)", c13spec(1, aggfix.Both, 1, 2)), c13rec("Agg(k1,#3)", c13spec(1, aggfix.Both, 1, 3))},
			{c13scan(true)},
			{c13query(1), c13expiry},
		}})
	}
	return scs
}

// worker-pool scenario: the built-in workers pull from the shared channel
func c13PoolScenario() *vsched.Scenario {
	specs := []aggfix.Spec{c13spec(1, aggfix.Both, 1, 2), c13spec(1, aggfix.Both, 1, 3), c13spec(0, aggfix.Both, 1, 1)}
	build := func() (*intermediate.AggregationProcess, chan *entities.Message) {
		ch := make(chan *entities.Message)
		ap := c13new(ch, 2)
		if err := ap.AggregateMsgByFlowKey(aggfix.Msg(aggfix.Record(c13spec(1, aggfix.Both, 1, 1)))); err != nil {
			panic(err)
		}
		return ap, ch
	}
	var finals map[string]bool
	var lastFinal, lastScan string
	main := func() {
		ap, ch := build()
		vsched.S.Now = vsched.S.Now.Add(5 * unit)
		starter := vsched.Go("Start", func() { ap.Start() })
		feeder := vsched.Go("feeder", func() {
			for _, sp := range specs {
				vsched.Send(ch, aggfix.Msg(aggfix.Record(sp)))
			}
		})
		scanner := vsched.Go("scanner", func() { lastScan = c13scan(false).run(ap) })
		vsched.Join(feeder, scanner)
		vsched.Quiesce()
		lastFinal = c13final(ap)
		vsched.Logf("scan: %s", lastScan)
		vsched.Logf("final: %s", lastFinal)
		ap.Stop()
		vsched.Join(starter)
		vsched.Quiesce()
		if l := vsched.Live(); len(l) > 0 {
			vsched.Fail("goroutine-leak", "after Stop these threads are still alive: %v", l)
		}
	}
	check := func(o *vsched.Outcome) *vsched.Problem {
		if finals == nil {
			// acceptable finals: the three messages and the scan in any order (messages keep channel order
			// per worker only, so any permutation of the ingestions is a legal sequential execution)
			finals = map[string]bool{}
			perm := [][]int{{0, 1, 2}, {0, 2, 1}, {1, 0, 2}, {1, 2, 0}, {2, 0, 1}, {2, 1, 0}}
			for _, p := range perm {
				for scanAt := 0; scanAt <= 3; scanAt++ {
					vsched.BeginSeq(t0)
					ap, _ := build()
					vsched.S.Now = vsched.S.Now.Add(5 * unit)
					sres := ""
					for i := 0; i <= 3; i++ {
						if i == scanAt {
							sres = c13scan(false).run(ap)
						}
						if i < 3 {
							ap.AggregateMsgByFlowKey(aggfix.Msg(aggfix.Record(specs[p[i]])))
						}
					}
					finals[sres+" || "+c13final(ap)] = true
					vsched.EndSeq()
				}
			}
		}
		if strings.HasPrefix(lastFinal, "STRUCTURE VIOLATED") {
			return &vsched.Problem{Kind: "structure", Detail: lastFinal}
		}
		if !finals[lastScan+" || "+lastFinal] {
			return &vsched.Problem{Kind: "not-linearizable", Detail: fmt.Sprintf("worker pool: scan result and final state are not those of any sequential order of the 3 ingestions and the scan:\nscan: %s\nfinal: %s", lastScan, lastFinal)}
		}
		return nil
	}
	return &vsched.Scenario{Name: "S4-worker-pool-vs-scan", Main: main, Check: check, TrackRaces: true, Start: t0}
}

func c13E2(tier string) []*e2Scenario {
	bound := -1 // the critical sections are coarse: the unbounded space is small enough to enumerate
	var out []*e2Scenario
	for _, sc := range c13Scenarios(tier) {
		out = append(out, &e2Scenario{Name: sc.name, Sc: c13Scenario(sc), Bound: bound})
	}
	pb := 1
	if tier == "thorough" {
		pb = 2
	}
	out = append(out, &e2Scenario{Name: "S4-worker-pool-vs-scan", Sc: c13PoolScenario(), Bound: pb})
	return out
}

func runC13(tier, replay string) int {
	rep := common.NewReporter("C13")
	if tier == "replay" {
		return e2Replay("C13", replay, c13E2("thorough"))
	}
	tot, ok := runE2(rep, c13E2(tier), 0)
	if tot == nil {
		if ok {
			return 0
		}
		return 2
	}
	e2Evidence("C13", tier, rep, tot,
		"every schedule (unbounded preemptions for the direct-call scenarios, bounded for the worker pool) of 3-4 threads issuing AggregateMsgByFlowKey / ForAllExpiredFlowRecordsDo / GetRecords / GetNumFlows / GetExpiry on one AggregationProcess built from the rewritten package; each execution's per-operation results and final map/heap snapshot must equal those of some sequential order of the same operations (computed by running the implementation itself one operation at a time, all orders enumerated) that respects real-time order; heap/map structural invariant on the final state; happens-before race detection on every instrumented field access. distinct_nontrivial = distinct observation logs (results + final state) over all schedules",
		[]string{"N <= 4 threads; more ingesters are not enumerable", "sequential semantics = the implementation itself run single-threaded (what concurrency adds is isolated; single-threaded defects are C05-C07's business)", "race detection covers fields of structs declared in the rewritten package; element values inside entities are reached only through those"})
	if !ok {
		return 2
	}
	return rep.Finish()
}
