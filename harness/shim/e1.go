package main

import (
	"encoding/json"
	"fmt"
	"runtime"

	"verifharness/common"
	"verifharness/xplore"
)

// e1Result is what a shard sends back.
type e1Result struct {
	Config string
	Res    *xplore.Result
}

type e1Totals struct {
	States, Interesting, Trans, Traces int64
	Exhaustive, ClosedAll             bool
	Samples                           []interface{}
	PerCfg                            []interface{}
}

// runE1 runs the given xplore configurations. Shim-flavour instances rely on the process-global
// sequential scheduler, so every process runs one history at a time (Workers=1) and pass (a) is
// sharded over processes; pass (b) runs in shard 0.
func runE1(rep *common.Reporter, cfgs []*xplore.Config) (*e1Totals, bool) {
	shard, nsh := common.ShardInfo()
	if nsh > 0 {
		for _, c := range cfgs {
			c.Workers, c.Shard, c.NShards = 1, shard, nsh
			c.Known = func(v *xplore.Violation, h []int) (string, bool) { return common.MatchKnown(rep.Property, v.Kind, v.Detail) }
			res := xplore.Run(c)
			common.EmitResult(e1Result{c.Name, res})
		}
		return nil, true
	}
	merged := map[string]*xplore.Result{}
	seenV := map[string]bool{}
	byName := map[string]*xplore.Config{}
	for _, c := range cfgs {
		byName[c.Name] = c
	}
	ok := common.RunShards(runtime.NumCPU(), nil, func(sh int, raw json.RawMessage) {
		var r e1Result
		if err := json.Unmarshal(raw, &r); err != nil {
			fmt.Println("bad shard result:", err)
			return
		}
		m := merged[r.Config]
		if m == nil {
			m = &xplore.Result{KnownHits: map[string]int{}, HistExhaustive: true, HistDepthDone: 1 << 30}
			merged[r.Config] = m
		}
		m.Histories += r.Res.Histories
		m.HistTransitions += r.Res.HistTransitions
		if r.Res.HistDepthDone < m.HistDepthDone {
			m.HistDepthDone = r.Res.HistDepthDone
		}
		m.HistExhaustive = m.HistExhaustive && r.Res.HistExhaustive
		m.CapsHit = append(m.CapsHit, r.Res.CapsHit...)
		if sh == 0 {
			m.States, m.InterestingStates, m.StateTransitions, m.StateDepthDone, m.Closed = r.Res.States, r.Res.InterestingStates, r.Res.StateTransitions, r.Res.StateDepthDone, r.Res.Closed
		}
		for _, s := range r.Res.Samples {
			if len(m.Samples) < 6 {
				m.Samples = append(m.Samples, s)
			}
		}
		for id, n := range r.Res.KnownHits {
			m.KnownHits[id] += n
			for i := 0; i < n; i++ {
				rep.CheckKnown(idKind[id], idDetail[id])
			}
		}
		for _, f := range r.Res.Violations {
			k := fmt.Sprint(r.Config, f.Hist, f.V.Kind)
			if seenV[k] {
				continue
			}
			seenV[k] = true
			if id, isKnown := rep.CheckKnown(f.V.Kind, f.V.Detail); isKnown {
				_ = id
				continue
			}
			m.Violations = append(m.Violations, f)
			rep.Report(r.Config, f.V.Kind, f.V.Detail, map[string]interface{}{"hist": f.Hist, "ops": f.Ops}, nil)
		}
	})
	if !ok {
		return nil, false
	}
	t := &e1Totals{Exhaustive: true, ClosedAll: true}
	for _, c := range cfgs {
		m := merged[c.Name]
		if m == nil {
			continue
		}
		t.States += m.States
		t.Interesting += m.InterestingStates
		t.Trans += m.HistTransitions + m.StateTransitions
		t.Traces += m.Histories + m.StateTransitions
		t.Exhaustive = t.Exhaustive && m.HistExhaustive
		if c.StateDepth > 0 {
			t.ClosedAll = t.ClosedAll && m.Closed
		}
		for _, s := range m.Samples {
			if len(t.Samples) < 8 {
				t.Samples = append(t.Samples, map[string]interface{}{"config": c.Name, "history": s})
			}
		}
		t.PerCfg = append(t.PerCfg, map[string]interface{}{"config": c.Name, "histories": m.Histories, "hist_depth_completed": m.HistDepthDone,
			"states": m.States, "state_transitions": m.StateTransitions, "state_depth": m.StateDepthDone, "closed": m.Closed, "caps_hit": m.CapsHit, "known_hits": m.KnownHits})
		fmt.Printf("%s %s: histories=%d (depth %d) states=%d transitions=%d closed=%v violations=%d known=%v caps=%v\n", rep.Property, c.Name, m.Histories, m.HistDepthDone, m.States, m.StateTransitions, m.Closed, len(m.Violations), m.KnownHits, m.CapsHit)
	}
	if t.States == 0 {
		t.States = t.Traces // no de-duplicated pass ran: every executed history end state counts once
	}
	return t, true
}

// known-finding id -> representative (kind, detail), filled lazily from known_findings.json matches
var idKind = map[string]string{}
var idDetail = map[string]string{}

// e1Replay replays a history file against the matching configuration.
func e1Replay(prop, replay string, cfgs []*xplore.Config) int {
	r, err := common.ReadReplay(replay)
	if err != nil {
		fmt.Println(err)
		return 2
	}
	var tr struct{ Hist []int }
	b, _ := json.Marshal(r.Trace)
	json.Unmarshal(b, &tr)
	for _, c := range cfgs {
		if c.Name != r.Scenario {
			continue
		}
		for i, op := range tr.Hist {
			fmt.Printf("  step %d: %s\n", i, c.OpName(op))
		}
		step, v := c.Replay(tr.Hist)
		if v != nil {
			fmt.Printf("replay: violation at step %d: %s\n", step, v.Error())
			fmt.Printf("VIOLATION property=%s replay=%s\n", prop, replay)
			return 1
		}
		fmt.Println("replay: no violation")
		return 0
	}
	fmt.Println("replay: unknown scenario", r.Scenario)
	return 2
}
