package main

import (
	"fmt"
	"sort"
	"strings"
	"time"

	"github.com/vmware/go-ipfix/pkg/entities"
	"github.com/vmware/go-ipfix/pkg/collector"
	"github.com/vmware/go-ipfix/pkg/exporter"
	"github.com/vmware/go-ipfix/pkg/intermediate"
	"github.com/vmware/go-ipfix/pkg/verifshim/vsched"

	"verifharness/aggfix"
	"verifharness/common"
	"verifharness/xplore"
)

func init() { checks["C05"] = runC05 }

// counters: index 0..3 totals (pkt, oct, rpkt, roct), 4..7 deltas (pkt, oct, rpkt, roct)
var c05TotNames = []string{"packetTotalCount", "octetTotalCount", "reversePacketTotalCount", "reverseOctetTotalCount"}
var c05DlNames = []string{"packetDeltaCount", "octetDeltaCount", "reversePacketDeltaCount", "reverseOctetDeltaCount"}

type c05inc struct {
	name string
	tot  [4]uint64
	dl   [4]uint64
}

var c05incs = []c05inc{
	{"+0", [4]uint64{0, 0, 0, 0}, [4]uint64{0, 0, 0, 0}},
	{"+small", [4]uint64{1, 100, 2, 300}, [4]uint64{1, 100, 2, 300}},
	// octet totals beyond 2^53 with low bits set: exact in integer arithmetic, not in float64
	{"+huge", [4]uint64{1 << 32, 1<<56 + 3, 3 << 31, 1<<55 + 5}, [4]uint64{1 << 33, 1 << 41, 1 << 20, 7}},
}

type c05op struct {
	name   string
	kind   byte // 'r' record, 'e' export(active), 'x' expire all (inactive), 'z' reset via ForAllRecordsDo
	key    int
	stream int // aggfix.Both / Src / Dst
	dEnd   uint32
	inc    int
}

type c05node struct {
	tot    [4]uint64
	dl     [4]uint64
	end    uint32
	thr    uint64
	rthr   uint64
	nTot   [4]uint64 // running totals this node reports (generator state)
	nEnd   uint32    // last end time this node reported (generator state)
	seen   bool
}

type c05flow struct {
	end     uint32
	totCand [4]map[uint64]bool // acceptable common totals (latest-by-end / max / latest-by-arrival readings)
	totMax  [4]uint64
	totLatestEnd [4]uint64
	dl      [4]uint64
	thr     uint64
	rthr    uint64
	node    [2]c05node // 0 = S, 1 = D
	ready   bool
	first   int
}

type c05gen struct { // per key, per stream generator state survives flow deletion (the exporter keeps counting)
	nTot [2][4]uint64
	nEnd [2]uint32
}

// c05pipe: records reach the aggregation process the way they do in a deployment - encoded into an IPFIX
// message by the library, decoded by a real collecting process, and handed on as delivered.
type c05pipe struct {
	cp   *collector.CollectingProcess
	ch   chan *entities.Message
	tmpl map[string]uint16
	seq  uint32
}

func newC05pipe() *c05pipe {
	cp, err := collector.VerifInitCollectingProcess(collector.CollectorInput{Address: "127.0.0.1:0", Protocol: "tcp", MaxBufferSize: 65535, TemplateTTL: 0}, nil)
	if err != nil {
		panic(err)
	}
	p := &c05pipe{cp: cp, ch: make(chan *entities.Message, 4), tmpl: map[string]uint16{}}
	cp.VerifSetMsgChan(p.ch)
	return p
}

func (p *c05pipe) decode(set entities.Set) *entities.Message {
	set.UpdateLenInHeader()
	b, err := exporter.CreateIPFIXMsg(set, 77, p.seq, vsched.S.Now)
	if err != nil {
		panic(err)
	}
	m, err := p.cp.VerifDecodePacket(b, "10.0.0.9:4739")
	if err != nil {
		panic(fmt.Sprintf("pipeline: the collector refused a message the library encoded: %v", err))
	}
	for vsched.Len(p.ch) > 0 { // (channels of rewritten packages live in the scheduler's model)
		vsched.Recv((<-chan *entities.Message)(p.ch))
	}
	return m
}

func (p *c05pipe) through(recs ...entities.Record) *entities.Message {
	// one template per record layout (IPv4 / IPv6 flows list different elements); records of one message
	// share a layout by construction of the alphabet
	sig := ""
	for _, e := range recs[0].GetOrderedElementList() {
		sig += e.GetName() + ","
	}
	tid, ok := p.tmpl[sig]
	if !ok {
		tid = uint16(256 + len(p.tmpl))
		p.tmpl[sig] = tid
		ts := entities.NewSet(false)
		ts.PrepareSet(entities.Template, tid)
		var els []entities.InfoElementWithValue
		for _, e := range recs[0].GetOrderedElementList() {
			t, err := entities.DecodeAndCreateInfoElementWithValue(e.GetInfoElement(), nil)
			if err != nil {
				panic(err)
			}
			els = append(els, t)
		}
		if err := ts.AddRecord(els, tid); err != nil {
			panic(err)
		}
		p.decode(ts)
	}
	ds := entities.NewSet(false)
	ds.PrepareSet(entities.Data, tid)
	for _, r := range recs {
		if err := ds.AddRecord(r.GetOrderedElementList(), tid); err != nil {
			panic(err)
		}
	}
	p.seq += uint32(len(recs))
	return p.decode(ds)
}

type c05sys struct {
	pipe   *c05pipe
	ops    []c05op
	ap     *intermediate.AggregationProcess
	model  map[int]*c05flow
	gen    map[int]*c05gen
	keyIdx map[intermediate.FlowKey]int
}

const c05Start = 1000

// the destination node reports its own (different) flow start time
func c05StartOf(gi int) uint32 {
	if gi == 1 {
		return 995
	}
	return c05Start
}

// key modes: 0 inter-node pair, 1 single stream (intra), 2 single stream (intra, IPv6)
func c05Ops() []c05op {
	var ops []c05op
	for k := 0; k < 3; k++ {
		streams := []int{aggfix.Both}
		if k == 0 {
			streams = []int{aggfix.Src, aggfix.Dst}
		}
		for _, st := range streams {
			for _, d := range []uint32{2, 10} {
				for i, inc := range c05incs {
					sn := map[int]string{aggfix.Both: "single", aggfix.Src: "src", aggfix.Dst: "dst"}[st]
					ops = append(ops, c05op{name: fmt.Sprintf("Rec(k%d,%s,dEnd=%d,%s)", k, sn, d, inc.name), kind: 'r', key: k, stream: st, dEnd: d, inc: i})
				}
			}
		}
	}
	ops = append(ops, c05op{name: "Export(active, no reset)", kind: 'n'}, c05op{name: "Export(active)", kind: 'e'}, c05op{name: "Reset(ForAllRecordsDo)", kind: 'z'}, c05op{name: "Expire(inactive)", kind: 'x'})
	return ops
}

func newC05(ops []c05op) *c05sys {
	vsched.BeginSeq(t0)
	intermediate.MaxRetries = 1000
	ap, err := intermediate.InitAggregationProcess(intermediate.AggregationInput{
		MessageChan: make(chan *entities.Message), WorkerNum: 1, CorrelateFields: aggfix.CorrelateFields,
		AggregateElements: aggfix.Elements(), ActiveExpiryTimeout: 10 * unit, InactiveExpiryTimeout: 1000 * unit,
	})
	if err != nil {
		panic(err)
	}
	s := &c05sys{ops: ops, ap: ap, model: map[int]*c05flow{}, gen: map[int]*c05gen{}, keyIdx: map[intermediate.FlowKey]int{}}
	for i := range aggfix.Keys {
		s.keyIdx[aggfix.Keys[i].FlowKey()] = i
		s.gen[i] = &c05gen{}
	}
	return s
}

func (s *c05sys) Close() { vsched.EndSeq() }

func div8(oct uint64, dt uint32) uint64 {
	if dt == 0 {
		return 0
	}
	return oct * 8 / uint64(dt)
}

func (s *c05sys) render(f *c05flow) map[string]string {
	m := map[string]string{}
	m["flowEndSeconds"] = fmt.Sprint(f.end)
	for i, n := range c05DlNames {
		m[n] = fmt.Sprint(f.dl[i])
		m[n+"FromSourceNode"] = fmt.Sprint(f.node[0].dl[i])
		m[n+"FromDestinationNode"] = fmt.Sprint(f.node[1].dl[i])
	}
	for i, n := range c05TotNames {
		m[n+"FromSourceNode"] = fmt.Sprint(f.node[0].tot[i])
		m[n+"FromDestinationNode"] = fmt.Sprint(f.node[1].tot[i])
	}
	m["flowEndSecondsFromSourceNode"] = fmt.Sprint(f.node[0].end)
	m["flowEndSecondsFromDestinationNode"] = fmt.Sprint(f.node[1].end)
	m["throughput"], m["reverseThroughput"] = fmt.Sprint(f.thr), fmt.Sprint(f.rthr)
	m["throughputFromSourceNode"], m["reverseThroughputFromSourceNode"] = fmt.Sprint(f.node[0].thr), fmt.Sprint(f.node[0].rthr)
	m["throughputFromDestinationNode"], m["reverseThroughputFromDestinationNode"] = fmt.Sprint(f.node[1].thr), fmt.Sprint(f.node[1].rthr)
	return m
}

func implValues(r entities.Record) map[string]string {
	m := map[string]string{}
	for _, e := range r.GetOrderedElementList() {
		switch e.GetDataType() {
		case entities.Unsigned64:
			m[e.GetName()] = fmt.Sprint(e.GetUnsigned64Value())
		case entities.DateTimeSeconds, entities.Unsigned32:
			m[e.GetName()] = fmt.Sprint(e.GetUnsigned32Value())
		}
	}
	return m
}

// compare one flow's aggregated record with the model
func (s *c05sys) compare(ctx string, k int, f *c05flow, rec entities.Record) *xplore.Violation {
	got := implValues(rec)
	want := s.render(f)
	var names []string
	for n := range want {
		names = append(names, n)
	}
	sort.Strings(names)
	for _, n := range names {
		g, ok := got[n]
		if !ok {
			return xplore.V("field-missing", "%s: aggregated record of k%d has no field %s", ctx, k, n)
		}
		if g != want[n] {
			return xplore.V("field-value", "%s: k%d %s = %s, expected %s", ctx, k, n, g, want[n])
		}
	}
	for i, n := range c05TotNames {
		g := got[n]
		okv := false
		for c := range f.totCand[i] {
			if g == fmt.Sprint(c) {
				okv = true
			}
		}
		if !okv {
			return xplore.V("field-value", "%s: k%d common %s = %s, acceptable readings %v", ctx, k, n, g, f.totCand[i])
		}
	}
	return nil
}

// prepRec builds the record an 'r' operation stands for (advancing the generator state of its stream) and
// returns the model update to apply once the aggregation process has taken it.
func (s *c05sys) prepRec(op c05op) (entities.Record, func()) {
	g := s.gen[op.key]
	inc := c05incs[op.inc]
	nodes := []int{0, 1}
	gi := 0
	switch op.stream {
	case aggfix.Src:
		nodes = []int{0}
	case aggfix.Dst:
		nodes, gi = []int{1}, 1
	}
	// per reporting stream: end strictly increases (destination-node ends are odd, source/single even: no cross-node ties)
	if g.nEnd[gi] == 0 {
		g.nEnd[gi] = c05Start
		if gi == 1 {
			g.nEnd[gi] = c05Start + 1
		}
	}
	g.nEnd[gi] += op.dEnd
	var dl [4]uint64
	for i := 0; i < 4; i++ {
		g.nTot[gi][i] += inc.tot[i]
		dl[i] = inc.dl[i]
	}
	end, tot := g.nEnd[gi], g.nTot[gi]
	flowType, from := uint8(1), aggfix.Both
	if op.stream != aggfix.Both {
		flowType, from = 2, op.stream
	} else if op.key == 2 {
		// the IPv6 single-stream flow comes from outside the cluster: one reporting stream as well (only the
		// destination node sees it), whatever the flow type is called
		flowType, from = 4, aggfix.Dst
	}
	start := c05StartOf(gi)
	layout := 0
	if op.stream == aggfix.Dst {
		layout = 1 // the destination node's exporter lists the same fields in another order (same template id)
	}
	rec := aggfix.Record(aggfix.Spec{Key: op.key, FlowType: flowType, Egress: 1, From: from, Start: start, End: end, Layout: layout,
		PktTot: tot[0], OctTot: tot[1], RPktTot: tot[2], ROctTot: tot[3], PktDelta: dl[0], OctDelta: dl[1], RPktDelta: dl[2], ROctDelta: dl[3], TCPState: "ESTABLISHED"})
	return rec, func() {
		f, ok := s.model[op.key]
		if !ok {
			f = &c05flow{end: end, dl: dl, first: op.stream}
			for i := 0; i < 4; i++ {
				f.totCand[i] = map[uint64]bool{tot[i]: true}
				f.totMax[i], f.totLatestEnd[i] = tot[i], tot[i]
			}
			thr, rthr := div8(tot[1], end-start), div8(tot[3], end-start)
			f.thr, f.rthr = thr, rthr
			for _, n := range nodes {
				f.node[n] = c05node{tot: tot, dl: dl, end: end, thr: thr, rthr: rthr, seen: true}
			}
			f.ready = op.stream == aggfix.Both
			s.model[op.key] = f
		} else {
			latest := end >= f.end
			if latest {
				f.end = end
			}
			if op.stream != aggfix.Both && !f.ready && op.stream != f.first {
				f.ready = true
			}
			var thr, rthr uint64
			for _, n := range nodes {
				nd := &f.node[n]
				prev := nd.end
				if prev == 0 {
					prev = start // first report of this node: since the flow start it reports
				}
				dt := end - prev
				thr, rthr = div8(tot[1]-nd.tot[1], dt), div8(tot[3]-nd.tot[3], dt)
				nd.tot = tot
				for i := 0; i < 4; i++ {
					nd.dl[i] += dl[i]
				}
				nd.end, nd.thr, nd.rthr, nd.seen = end, thr, rthr, true
			}
			for i := 0; i < 4; i++ {
				if tot[i] > f.totMax[i] {
					f.totMax[i] = tot[i]
				}
				if latest {
					f.totLatestEnd[i] = tot[i]
				}
				// acceptable readings of "the latest value": by end time, the maximum, by arrival, or
				// (implementation's reading) max restricted to latest-by-end records
				cand := map[uint64]bool{f.totLatestEnd[i]: true, f.totMax[i]: true, tot[i]: true}
				if latest {
					prevC := f.totCand[i]
					for c := range prevC {
						if c > tot[i] {
							cand[c] = true
						}
					}
				} else {
					for c := range f.totCand[i] {
						cand[c] = true
					}
				}
				f.totCand[i] = cand
			}
			if latest {
				rep := nodes[len(nodes)-1]
				f.dl = f.node[rep].dl
				f.thr, f.rthr = thr, rthr
			}
		}
	}
}

// message wraps records the way the configuration says: hand-built (as decoded records look), or - pipeline
// mode - encoded by the library, decoded by a real collecting process and handed on as it delivers them.
func (s *c05sys) message(recs ...entities.Record) *entities.Message {
	if s.pipe == nil {
		return aggfix.Msg(recs...)
	}
	return s.pipe.through(recs...)
}

func (s *c05sys) Apply(opi int) (v *xplore.Violation) {
	defer func() {
		if r := recover(); r != nil {
			v = xplore.V("panic", "%s panicked: %v", s.ops[opi].name, r)
		}
	}()
	op := s.ops[opi]
	switch op.kind {
	case 'r':
		rec, commit := s.prepRec(op)
		if err := s.ap.AggregateMsgByFlowKey(s.message(rec)); err != nil {
			return xplore.V("aggregate-error", "%s: %v", op.name, err)
		}
		commit()
	case 'm':
		// one message carrying records of two unrelated flows (same record layout)
		r1, c1 := s.prepRec(c05op{kind: 'r', key: 1, stream: aggfix.Both, dEnd: 2, inc: 1})
		r2, c2 := s.prepRec(c05op{kind: 'r', key: 0, stream: aggfix.Src, dEnd: 2, inc: 1})
		if err := s.ap.AggregateMsgByFlowKey(s.message(r1, r2)); err != nil {
			return xplore.V("aggregate-error", "%s: %v", op.name, err)
		}
		c1()
		c2()
	case 'z':
		err := s.ap.ForAllRecordsDo(func(key intermediate.FlowKey, rec *intermediate.AggregationFlowRecord) error {
			return s.ap.ResetStatAndThroughputElementsInRecord(rec.Record)
		})
		if err != nil {
			return xplore.V("reset-error", "%s: %v", op.name, err)
		}
		for _, f := range s.model {
			c05reset(f)
		}
	case 'e', 'x', 'n':
		d := 11 * unit
		if op.kind == 'x' {
			d = 2000 * unit
		}
		vsched.SeqAdvance(d)
		exported := map[int]bool{}
		var cbv *xplore.Violation
		err := s.ap.ForAllExpiredFlowRecordsDo(func(key intermediate.FlowKey, rec *intermediate.AggregationFlowRecord) error {
			k := s.keyIdx[key]
			f, ok := s.model[k]
			if !ok {
				cbv = xplore.V("export-unknown", "%s: exported a flow the model does not hold: %v", op.name, key)
				return nil
			}
			if exported[k] {
				cbv = xplore.V("export-twice", "%s: k%d exported twice", op.name, k)
			}
			exported[k] = true
			if !f.ready {
				cbv = xplore.V("export-unready", "%s: k%d exported before both nodes reported", op.name, k)
			}
			if v := s.compare(op.name+" (exported record)", k, f, rec.Record); v != nil && cbv == nil {
				cbv = v
			}
			if op.kind == 'n' {
				return nil // an export whose callback resets nothing: the sums go on
			}
			if err := s.ap.ResetStatAndThroughputElementsInRecord(rec.Record); err != nil {
				cbv = xplore.V("reset-error", "%s: %v", op.name, err)
			}
			c05reset(f)
			return nil
		})
		if err != nil {
			return xplore.V("scan-error", "%s: %v", op.name, err)
		}
		if cbv != nil {
			return cbv
		}
		for k, f := range s.model {
			if f.ready && !exported[k] {
				return xplore.V("export-missed", "%s: ready flow k%d is past its deadline but was not exported", op.name, k)
			}
			if op.kind == 'x' && f.ready {
				delete(s.model, k)
			}
		}
	}
	// full comparison through the public query API
	if n := s.ap.GetNumFlows(); int(n) != len(s.model) {
		return xplore.V("num-flows", "after %s: %d flow records, expected %d (exactly one per distinct 5-tuple)", op.name, n, len(s.model))
	}
	snap := s.ap.VerifSnapshot()
	if len(snap.Flows) != len(s.model) {
		return xplore.V("num-flows", "after %s: %d flow records in the map, expected %d", op.name, len(snap.Flows), len(s.model))
	}
	for _, fl := range snap.Flows {
		k, ok := s.keyIdx[fl.Key]
		f := s.model[k]
		if !ok || f == nil {
			return xplore.V("unexpected-flow", "after %s: flow %v held but not expected", op.name, fl.Key)
		}
		if v := s.compare("after "+op.name, k, f, fl.Record.Record); v != nil {
			return v
		}
		fk := aggfix.Keys[k].FlowKey()
		if recs := s.ap.GetRecords(&fk); len(recs) != 1 {
			return xplore.V("get-records", "after %s: GetRecords(k%d) returned %d records", op.name, k, len(recs))
		}
	}
	return nil
}

func c05reset(f *c05flow) {
	f.dl = [4]uint64{}
	f.thr, f.rthr = 0, 0
	for n := range f.node {
		f.node[n].dl = [4]uint64{}
		f.node[n].thr, f.node[n].rthr = 0, 0
	}
}

func (s *c05sys) Canon() string {
	snap := s.ap.VerifSnapshotNoLock()
	var parts []string
	for _, fl := range snap.Flows {
		vals := implValues(fl.Record.Record)
		var names []string
		for n := range vals {
			names = append(names, n)
		}
		sort.Strings(names)
		var sb strings.Builder
		fmt.Fprintf(&sb, "k%d r=%v:", s.keyIdx[fl.Key], fl.ReadyToSend)
		for _, n := range names {
			fmt.Fprintf(&sb, "%s,", vals[n])
		}
		parts = append(parts, sb.String())
	}
	sort.Strings(parts)
	g := ""
	for k := 0; k < 3; k++ {
		g += fmt.Sprint(s.gen[k].nEnd, s.gen[k].nTot)
	}
	return strings.Join(parts, ";") + "|" + g + "|" + fmt.Sprint(vsched.S.Now.Sub(t0)/unit)
}

func c05Configs(tier string) []*xplore.Config {
	ops := c05Ops()
	cfgs := []*xplore.Config{{
		Name: "antrea-elements", NumOps: len(ops), OpName: func(i int) string { return ops[i].name },
		New:       func() xplore.Sys { return newC05(ops) },
		HistDepth: 4,
		Interesting: func(cn string) bool { return strings.Count(cn, "k") >= 1 },
	}}
	pops := append(append([]c05op{}, ops...), c05op{name: "Msg(k1 single, k0 src; dEnd=2, +small) in one set", kind: 'm'})
	pd := 3
	if tier == "thorough" {
		pd = 4
	}
	cfgs = append(cfgs, &xplore.Config{
		Name: "antrea-elements,through-collector", NumOps: len(pops), OpName: func(i int) string { return pops[i].name },
		New: func() xplore.Sys {
			s := newC05(pops)
			s.pipe = newC05pipe()
			return s
		},
		HistDepth:   pd,
		Interesting: func(cn string) bool { return strings.Count(cn, "k") >= 1 },
	})
	if tier == "thorough" {
		// deeper histories over a reduced alphabet (one end-time step, increments +small/+huge; 27^5
		// histories of the full alphabet take more than 20 minutes), plus a small de-duplicated BFS
		var red []c05op
		for _, o := range ops {
			if o.kind != 'r' || (o.dEnd == 2 && o.inc != 0) {
				red = append(red, o)
			}
		}
		cfgs = append(cfgs, &xplore.Config{
			Name: "antrea-elements,reduced-alphabet", NumOps: len(red), OpName: func(i int) string { return red[i].name },
			New:       func() xplore.Sys { return newC05(red) },
			HistDepth: 6, StateDepth: 4, MaxStates: 20000,
			Interesting: func(cn string) bool { return strings.Count(cn, "k") >= 1 },
		})
	}
	return cfgs
}

func runC05(tier, replay string) int {
	rep := common.NewReporter("C05")
	if tier == "replay" {
		return e1Replay("C05", replay, c05Configs("thorough"))
	}
	start := time.Now()
	_ = start
	tot, ok := runE1(rep, c05Configs(tier))
	if tot == nil {
		if ok {
			return 0
		}
		return 2
	}
	ev := &common.Evidence{PropertyID: "C05", Tier: tier}
	states := tot.States
	if states == 0 {
		states = tot.Traces // without pass (b) every history end-state is counted once
	}
	ev.Coverage = common.Coverage{
		"states": states, "transitions": tot.Trans, "traces_validated_against_impl": tot.Traces, "samples": tot.Samples,
		"evaluations": tot.Traces, "distinct_nontrivial": tot.Traces,
		"rule":       "every history over 28 operations {record(key in {inter-node pair, intra IPv4, intra IPv6}, reporting stream, end-time step in {2,10}, counter increment in {+0, +small, +(2^56+3)}), active export with and without reset, reset through ForAllRecordsDo, inactive expiry} up to depth 4 (thorough: additionally depth 6 over a reduced alphabet of 11 operations); a second configuration runs the alphabet plus a two-flow message to depth 3 (thorough 4) with every record encoded by the library, decoded by a real collecting process and aggregated as delivered, generated within the statement's contract (per node: end strictly increasing, totals non-decreasing, end > start; no cross-node end-time ties); after every operation every field of every aggregated record is compared with the arithmetic model (aggmodel, DESIGN Appendix B.1). Histories are distinct by construction; distinct_nontrivial counts them (each contains at least one record or export). Thorough adds a depth-bounded BFS de-duplicated on all record values (the graph does not close: counters grow)",
		"exhaustive": tot.Exhaustive, "per_config": tot.PerCfg,
	}
	ev.Assumptions = []string{"common total counters: any of {latest by end time, maximum, latest by arrival} is accepted where the readings differ", "first record of a node: throughput is measured since flow start"}
	ev.WallS = common.Since(rep.Start)
	ev.Violations = rep.Violations()
	common.WriteEvidence(ev)
	return rep.Finish()
}
