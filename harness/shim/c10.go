package main

import (
	"encoding/json"
	"fmt"
	"runtime"
	"sort"
	"strings"
	"time"

	"github.com/vmware/go-ipfix/pkg/collector"
	"github.com/vmware/go-ipfix/pkg/entities"
	"github.com/vmware/go-ipfix/pkg/verifshim/vsched"
	"github.com/vmware/go-ipfix/pkg/verifshim/vtime"

	"verifharness/colcheck"
	"verifharness/colmodel"
	"verifharness/common"
	"verifharness/refcodec"
)

func init() { checks["C10"] = runC10 }

const c10TTL = 2 // seconds

type c10op struct {
	name string
	kind byte // 't' template, 'u' replacement template, 'b' bad template, 'd' data, 'a' advance
	dom  uint32
	id   uint16
	d    int // advance, in milliseconds
}

func c10Ops(domains []uint32) []c10op {
	var ops []c10op
	for _, d := range domains {
		for _, id := range []uint16{256, 257} {
			n := func(k string) string { return fmt.Sprintf("%s(d%d,%d)", k, d, id) }
			ops = append(ops, c10op{n("T"), 't', d, id, 0}, c10op{n("T'"), 'u', d, id, 0}, c10op{n("Bad"), 'b', d, id, 0}, c10op{n("Data"), 'd', d, id, 0})
		}
	}
	// (milliseconds) half the lifetime, the lifetime, and just short of it
	ops = append(ops, c10op{"Adv(1)", 'a', 0, 0, 1000}, c10op{"Adv(2)", 'a', 0, 0, 2000}, c10op{"Adv(1.95)", 'a', 0, 0, 1950})
	return ops
}

var (
	c10tA = []refcodec.FieldSpec{{ID: 7, Len: 2}, {ID: 4, Len: 1}}            // 3 bytes
	c10tB = []refcodec.FieldSpec{{ID: 4, Len: 1}, {ID: 5, Len: 1}, {ID: 6, Len: 2}} // 4 bytes
	// 12 bytes: four A records or three B records
	c10body = []byte{1, 2, 3, 4, 5, 6, 7, 8, 9, 10, 11, 12}
)

func c10msg(op c10op) []byte {
	h := refcodec.Header{ExportTime: 77, Seq: 1, Domain: op.dom}
	switch op.kind {
	case 't':
		return refcodec.TemplateMsg(h, refcodec.Template{ID: op.id, Fields: c10tA})
	case 'u':
		return refcodec.TemplateMsg(h, refcodec.Template{ID: op.id, Fields: c10tB})
	case 'b':
		return refcodec.TemplateMsg(h, refcodec.Template{ID: op.id, Fields: []refcodec.FieldSpec{{ID: 7, Len: 2}, {ID: 999, Len: 3}}})
	case 'd':
		return refcodec.Msg(h, op.id, c10body)
	}
	return nil
}

type c10entry struct {
	refreshed time.Time
}

// c10Scenario: one history, all placements of timer firings and callbacks explored by the scheduler.
// encrypted: a DTLS collector (the statement is about UDP whether or not the datagrams are encrypted; the
// decoding path is driven directly, no handshake is involved)
func c10Scenario(ops []c10op, hist []int, encrypted ...bool) *vsched.Scenario {
	enc := len(encrypted) > 0 && encrypted[0]
	main := func() {
		cp, err := collector.InitCollectingProcess(collector.CollectorInput{Address: "127.0.0.1:4739", Protocol: "udp", MaxBufferSize: 65535, TemplateTTL: c10TTL, IsEncrypted: enc})
		if err != nil {
			panic(err)
		}
		ch := make(chan *entities.Message, 64)
		cp.VerifSetMsgChan(ch)
		model := colmodel.New(colmodel.Strict)
		life := map[colmodel.Key]*c10entry{}
		ttl := time.Duration(c10TTL) * time.Second
		// invariant evaluated by the scheduler before every decision, when nobody holds the collector's lock
		vsched.S.Hook = func() {
			if !cp.VerifMutexFree() {
				return
			}
			tpls, _ := cp.VerifTemplatesNoLock()
			used := map[*vsched.TimerModel]bool{}
			for _, t := range tpls {
				if !t.HasTimer {
					vsched.Fail("no-timer", "stored template (d%d,%d) has no expiry timer", t.Domain, t.ID)
					continue
				}
				tm := t.Timer.(*vtime.Timer).Model()
				if used[tm] {
					vsched.Fail("shared-timer", "two stored templates share one timer")
				}
				used[tm] = true
				if !tm.Armed && tm.InFlight == 0 {
					vsched.Fail("no-expiry-pending", "stored template (d%d,%d) has no expiry pending: its timer is neither armed nor is a callback in flight (it will never be discarded)", t.Domain, t.ID)
				}
			}
			for _, tm := range vsched.PendingTimers() {
				if tm.Period == 0 && tm.F != nil && tm.Armed && !used[tm] {
					vsched.Fail("orphan-timer", "timer#%d is armed but belongs to no stored template (a removed template kept its timer)", tm.ID)
				}
			}
		}
		for step, oi := range hist {
			op := ops[oi]
			if op.kind == 'a' {
				vsched.Advance(time.Duration(op.d) * time.Millisecond)
				continue
			}
			msg := c10msg(op)
			k := colmodel.Key{Domain: op.dom, ID: op.id}
			now := vsched.VNow()
			e := life[k]
			exp := model.Message(append([]byte{}, msg...))
			m, err := cp.VerifDecodePacket(msg, "10.0.0.1:4739")
			for vsched.Len(ch) > 0 {
				vsched.Recv(ch)
			}
			switch op.kind {
			case 't', 'u':
				if err != nil {
					vsched.Fail("template-refused", "step %d %s: %v", step, op.name, err)
				}
				life[k] = &c10entry{refreshed: now}
			case 'b':
				if err == nil {
					vsched.Fail("bad-template-accepted", "step %d %s accepted", step, op.name)
				}
				delete(life, k)
			case 'd':
				switch {
				case e == nil:
					// never announced, invalidated, or already observed as discarded
					if err == nil {
						vsched.Fail("stale-template-used", "step %d %s: accepted although no template is in force (never sent / invalidated / discarded)", step, op.name)
					}
				case now.Before(e.refreshed.Add(ttl)):
					if err != nil {
						vsched.Fail("dropped-early", "step %d %s: refused %v after the last refresh, lifetime is %v: %v", step, op.name, now.Sub(e.refreshed), ttl, err)
					} else if v := colcheck.Judge(colmodel.Strict, exp, m, err); v != nil {
						vsched.Fail("wrong-template", "step %d %s: %s", step, op.name, v.Detail)
					}
				default:
					// lifetime elapsed: the expiry may or may not have been processed yet
					if err != nil {
						delete(life, k)
					} else if v := colcheck.Judge(colmodel.Strict, exp, m, err); v != nil {
						vsched.Fail("wrong-template", "step %d %s: %s", step, op.name, v.Detail)
					}
				}
			}
			// the reference store follows lifetimes, not just messages
			for mk := range model.T {
				if _, ok := life[mk]; !ok {
					delete(model.T, mk)
				}
			}
		}
		// quiescence: every due timer has fired and every callback has finished
		vsched.Quiesce()
		now := vsched.VNow()
		tpls, _ := cp.VerifTemplates()
		stored := map[colmodel.Key]bool{}
		for _, t := range tpls {
			stored[colmodel.Key{Domain: t.Domain, ID: t.ID}] = true
		}
		var obs []string
		for k, e := range life {
			alive := now.Before(e.refreshed.Add(ttl))
			if alive && !stored[k] {
				vsched.Fail("dropped-early", "at quiescence: template (d%d,%d) refreshed %v ago (lifetime %v) is gone", k.Domain, k.ID, now.Sub(e.refreshed), ttl)
			}
			if !alive && stored[k] {
				vsched.Fail("outlived", "at quiescence: template (d%d,%d) was last refreshed %v ago (lifetime %v), every due timer has run, and it is still stored", k.Domain, k.ID, now.Sub(e.refreshed), ttl)
			}
		}
		for k := range stored {
			if _, ok := life[k]; !ok {
				vsched.Fail("resurrected", "at quiescence: template (d%d,%d) is stored but was invalidated or never announced", k.Domain, k.ID)
			}
			obs = append(obs, fmt.Sprintf("d%d/%d", k.Domain, k.ID))
		}
		sort.Strings(obs)
		// behavioural probe after quiescence: every expiry that was due has run, so a data set is decoded
		// exactly when its template is alive (state inspection alone would miss a stale decode path)
		for _, op := range ops {
			if op.kind != 'd' {
				continue
			}
			k := colmodel.Key{Domain: op.dom, ID: op.id}
			e, known := life[k]
			alive := known && now.Before(e.refreshed.Add(ttl))
			_, err := cp.VerifDecodePacket(c10msg(op), "10.0.0.1:4739")
			for vsched.Len(ch) > 0 {
				vsched.Recv(ch)
			}
			if alive && err != nil {
				vsched.Fail("dropped-early", "at quiescence: data for (d%d,%d) refused although its template was refreshed %v ago (lifetime %v): %v", op.dom, op.id, now.Sub(e.refreshed), ttl, err)
			}
			if !alive && err == nil {
				vsched.Fail("outlived", "at quiescence: data for (d%d,%d) is still decoded although its template's lifetime has elapsed and every due expiry has run (or it was invalidated / never announced)", op.dom, op.id)
			}
		}
		vsched.Logf("stored=%v", obs)
	}
	return &vsched.Scenario{Name: "history", Main: main, TrackRaces: true, Start: t0}
}

type c10res struct {
	Histories, Execs, Points, Steps int64
	Outcomes                        int
	MaxDepth                        int
	Problems                        []c10found
	Samples                         [][]string
	Capped                          []string
}

type c10found struct {
	Hist    []int
	Ops     []string
	Problem vsched.Problem
	Choices []int
	Enc     bool
}

func c10names(ops []c10op, h []int) []string {
	out := make([]string, len(h))
	for i, x := range h {
		out[i] = ops[x].name
	}
	return out
}

// symmetry reduction: ids (and domains) are interchangeable; keep histories whose first uses appear in
// canonical order
func c10canonical(ops []c10op, h []int) bool {
	seenID := map[uint16]bool{}
	seenDom := map[uint32]bool{}
	for _, x := range h {
		op := ops[x]
		if op.kind == 'a' {
			continue
		}
		if !seenDom[op.dom] {
			if op.dom == 2 && !seenDom[1] {
				return false
			}
			seenDom[op.dom] = true
		}
		if !seenID[op.id] {
			if op.id == 257 && !seenID[256] {
				return false
			}
			seenID[op.id] = true
		}
	}
	return true
}

func runC10(tier, replay string) int {
	rep := common.NewReporter("C10")
	domains := []uint32{1}
	depth := 4
	if tier == "thorough" {
		depth = 5
	}
	ops := c10Ops(domains)
	ops2 := c10Ops([]uint32{1, 2})
	if tier == "replay" {
		r, err := common.ReadReplay(replay)
		if err != nil {
			fmt.Println(err)
			return 2
		}
		var tr struct {
			Hist    []int
			Choices []int
			TwoDom  bool
			Enc     bool
		}
		b, _ := json.Marshal(r.Trace)
		json.Unmarshal(b, &tr)
		o := ops
		if tr.TwoDom {
			o = ops2
		}
		fmt.Println("history:", c10names(o, tr.Hist))
		sc := c10Scenario(o, tr.Hist, tr.Enc)
		out := sc.Run(tr.Choices)
		for _, l := range vsched.Describe(out) {
			fmt.Println("  ", l)
		}
		if p := sc.Judge(out); p != nil {
			fmt.Printf("replay: %s: %s\nVIOLATION property=C10 replay=%s\n", p.Kind, p.Detail, replay)
			return 1
		}
		fmt.Println("replay: no violation")
		return 0
	}
	_, nsh := common.ShardInfo()
	type plan struct {
		ops      []c10op
		from, to int   // history lengths
		bound    int   // preemption bound, -1 = unbounded
		maxE     int64 // cap on schedules per history for an unbounded search (0 = none)
		fallback int   // bound completed instead when the cap is hit
		twoDom   bool
		enc      bool // DTLS collector
	}
	var plans []plan
	if tier == "thorough" {
		plans = []plan{
			{ops, 1, 4, -1, 150000, 4, false, false}, // every interleaving for the histories the quick tier bounds
			{ops, 5, 5, 3, 0, 0, false, false},       // one step deeper at the quick tier's bound
			{ops2, 1, 3, -1, 150000, 4, true, false},
			{ops2, 4, 4, 3, 0, 0, true, false},
			{ops, 1, 4, 3, 0, 0, false, true},
		}
	} else {
		plans = []plan{{ops, 1, 4, 3, 0, 0, false, false}, {ops2, 1, 3, 3, 0, 0, true, false}, {ops, 1, 3, 3, 0, 0, false, true}}
	}
	if nsh > 0 {
		res := c10res{}
		outcomes := map[uint64]bool{}
		for pi, pl := range plans {
			N := len(pl.ops)
			for L := pl.from; L <= pl.to; L++ {
				total := 1
				for i := 0; i < L; i++ {
					total *= N
				}
				cnt, mine := 0, false
				for n := 0; n < total; n++ {
					h := make([]int, L)
					x := n
					for i := L - 1; i >= 0; i-- {
						h[i] = x % N
						x /= N
					}
					if !c10canonical(pl.ops, h) {
						continue
					}
					// only histories that end with something observable after a template exists are worth exploring at depth < max; all are run anyway
					cnt++
					if cnt%8 == 1 {
						mine = common.Claim(fmt.Sprintf("p%d-L%d-%d", pi, L, cnt/8), cnt/8)
					}
					if !mine {
						continue
					}
					sc := c10Scenario(pl.ops, h, pl.enc)
					c := vsched.Explore(sc, vsched.ExploreConfig{Bound: pl.bound, MaxExecs: pl.maxE})
					if c.Capped != "" && len(c.Problems) == 0 {
						// too many interleavings for this history: fall back to a complete bounded search
						c2 := vsched.Explore(sc, vsched.ExploreConfig{Bound: pl.fallback})
						c2.Capped = fmt.Sprintf("unbounded search capped at %d schedules; preemption bound %d completed instead", pl.maxE, pl.fallback)
						c = c2
					}
					res.Histories++
					res.Execs += c.Execs
					res.Points += c.Points
					res.Steps += c.Steps
					if c.MaxDepth > res.MaxDepth {
						res.MaxDepth = c.MaxDepth
					}
					for k := range c.Outcomes {
						outcomes[k] = true
					}
					if c.Capped != "" {
						res.Capped = append(res.Capped, fmt.Sprintf("%v: %s", c10names(pl.ops, h), c.Capped))
					}
					if c.Execs > 3 && len(res.Samples) < 3 {
						res.Samples = append(res.Samples, c10names(pl.ops, h))
					}
					for _, f := range c.Problems {
						if len(res.Problems) < 20 {
							res.Problems = append(res.Problems, c10found{h, c10names(pl.ops, h), f.Problem, f.Choices, pl.enc})
						}
					}
				}
				if len(res.Problems) > 0 {
					break // shortest histories first
				}
			}
		}
		res.Outcomes = len(outcomes)
		common.EmitResult(res)
		return 0
	}
	tot := c10res{}
	var all []c10found
	ok := common.RunShards(runtime.NumCPU(), nil, func(sh int, raw json.RawMessage) {
		var r c10res
		if json.Unmarshal(raw, &r) != nil {
			return
		}
		tot.Histories += r.Histories
		tot.Execs += r.Execs
		tot.Points += r.Points
		tot.Steps += r.Steps
		tot.Outcomes += r.Outcomes
		if r.MaxDepth > tot.MaxDepth {
			tot.MaxDepth = r.MaxDepth
		}
		tot.Capped = append(tot.Capped, r.Capped...)
		for _, s := range r.Samples {
			if len(tot.Samples) < 6 {
				tot.Samples = append(tot.Samples, s)
			}
		}
		all = append(all, r.Problems...)
	})
	if !ok {
		return 2
	}
	sort.Slice(all, func(i, j int) bool { return len(all[i].Hist) < len(all[j].Hist) })
	seen := map[string]bool{}
	infra := false
	for _, f := range all {
		k := f.Problem.Kind + "|" + strings.Join(f.Ops, ",") + fmt.Sprint(f.Enc)
		if seen[k] {
			continue
		}
		seen[k] = true
		if f.Problem.Kind == "NONDETERMINISM" {
			fmt.Println("NONDETERMINISM:", f.Ops, f.Problem.Detail)
			infra = true
			continue
		}
		if _, known := rep.CheckKnown(f.Problem.Kind, f.Problem.Detail); known {
			continue
		}
		o := ops
		two := false
		for _, n := range f.Ops {
			if strings.Contains(n, "(d2,") {
				o, two = ops2, true
			}
		}
		sc := c10Scenario(o, f.Hist, f.Enc)
		if okc, why := e2Confirm(sc, vsched.Found{Problem: f.Problem, Choices: f.Choices}); !okc {
			fmt.Println("counterexample does not reproduce:", why)
			infra = true
			continue
		}
		rep.Report("history", f.Problem.Kind, fmt.Sprintf("history %v%s: %s", f.Ops, map[bool]string{true: " (DTLS collector)", false: ""}[f.Enc], f.Problem.Detail), map[string]interface{}{"hist": f.Hist, "ops": f.Ops, "choices": f.Choices, "twoDom": two, "enc": f.Enc}, nil)
	}
	fmt.Printf("C10 %s: histories=%d schedules=%d points=%d steps=%d maxdepth=%d outcomes=%d violations=%d caps=%d\n", tier, tot.Histories, tot.Execs, tot.Points, tot.Steps, tot.MaxDepth, tot.Outcomes, rep.Violations(), len(tot.Capped))
	var samples []interface{}
	for _, s := range tot.Samples {
		samples = append(samples, map[string]interface{}{"history": s})
	}
	if len(samples) == 0 {
		samples = append(samples, "none")
	}
	ev := &common.Evidence{PropertyID: "C10", Tier: tier}
	ev.Coverage = common.Coverage{
		"states": tot.Points, "transitions": tot.Steps, "traces_validated_against_impl": tot.Execs, "samples": samples,
		"evaluations": tot.Execs, "distinct_nontrivial": tot.Histories,
		"rule":       fmt.Sprintf("every history (reduced by id/domain symmetry) up to depth %d over {template, replacement template, bad template, data} x 2 ids x 1 domain + Adv(1), Adv(2), Adv(1.95) (and to a smaller depth over 2 domains) on a UDP collector with TTL=2 built through the normal constructor (its clock virtualised by the rewrite); for each history every interleaving of timer firings and expiry callbacks with the driver is explored up to 3 preemptions (quick); thorough explores the quick tier's histories (depth <= 4, two domains <= 3) without a preemption bound (a history with more than 150000 schedules falls back to a completed bound 4 and is listed in caps_hit) and the next depth at bound 3; oracle: data accepted while now < lastRefresh+TTL, rejected when no template is in force, stored <=> alive at quiescence, and at every scheduling point with the lock free each stored template has an armed timer or a callback in flight and no removed template keeps an armed timer; in-model data-race detection. distinct_nontrivial = histories explored; states = choice points", depth),
		"exhaustive": len(tot.Capped) == 0, "histories": tot.Histories, "max_choice_depth": tot.MaxDepth, "caps_hit": tot.Capped,
	}
	ev.Assumptions = []string{"at now >= lastRefresh+TTL a data set may be accepted or refused until the expiry has been processed", "timer semantics follow the Go documentation (Stop/Reset return values, callback in a fresh goroutine)"}
	ev.WallS = common.Since(rep.Start)
	ev.Violations = rep.Violations()
	common.WriteEvidence(ev)
	if infra {
		return 2
	}
	return rep.Finish()
}
