package main

import (
	"bytes"
	"encoding/json"
	"fmt"
	"runtime"
	"strings"

	"github.com/vmware/go-ipfix/pkg/verifshim/vsched"

	"verifharness/common"
	"verifharness/refcodec"
)

func init() { checks["C11"] = runC11 }

type c11case struct {
	Stream  int
	Cuts    []int
	SegRead bool
	CloseAt int // -1: write everything then close; >=0: close after this many bytes (abrupt)
	Explore bool
	Pause   bool // the sender pauses (virtual time passes) between segments
	// Shared: the second connection uses the same observation domain (its own template id) and sends its
	// last message only after the collector has closed the first connection
	Shared bool
}

type c11stream struct {
	name string
	msgs [][]byte
}

func c11Streams() []c11stream {
	valid := colStream(1, 2)
	h := refcodec.Header{ExportTime: 1000, Seq: 9, Domain: 1}
	badVersion := refcodec.DataMsg(h, refcodec.Template{ID: 256, Fields: colTA}, [][][]byte{{{1, 2}, {3}, []byte("zz"), {9, 9}}})
	badVersion[0], badVersion[1] = 0, 9
	unknownTmpl := refcodec.Msg(h, 300, []byte{1, 2, 3, 4, 5, 6})
	shortField := refcodec.Msg(h, 256, []byte{1, 2, 3, 9, 'a', 'b'}) // string prefix 9, only 2 bytes follow (and no octet array at all)
	badTemplate := refcodec.TemplateMsg(h, refcodec.Template{ID: 257, Fields: []refcodec.FieldSpec{{ID: 7, Len: 2}, {ID: 999, Len: 3}}})
	tinyLen := append([]byte{}, valid[1]...)
	tinyLen[2], tinyLen[3] = 0, 10 // header length 10: shorter than a header
	bads := []struct {
		n string
		m []byte
	}{{"bad-version", badVersion}, {"unknown-template", unknownTmpl}, {"short-field", shortField}, {"bad-template", badTemplate}, {"length-10", tinyLen}}
	// a data set with 2 bytes of set padding (shorter than the shortest record, RFC 7011 3.3.1) and a
	// template set carrying a second template record: the decoder legitimately leaves bytes unread
	padded := append(append([]byte{}, valid[1]...), 0, 0)
	padded[2], padded[3] = byte(len(padded)>>8), byte(len(padded))
	padded[18], padded[19] = byte((len(padded)-16)>>8), byte(len(padded)-16)
	t2 := append(append([]byte{}, valid[0]...), refcodec.TemplateBody(refcodec.Template{ID: 300, Fields: []refcodec.FieldSpec{{ID: 4, Len: 1}}})...)
	t2[2], t2[3] = byte(len(t2)>>8), byte(len(t2))
	t2[18], t2[19] = byte((len(t2)-16)>>8), byte(len(t2)-16)
	big := refcodec.DataMsg(refcodec.Header{ExportTime: 1000, Seq: 1, Domain: 1}, refcodec.Template{ID: 256, Fields: colTA},
		[][][]byte{{{0x12, 0x34}, {6}, bytes.Repeat([]byte("longname"), 625), {0xd0, 1, 0xfe, 0}}})
	out := []c11stream{{"valid[T,D,D]", valid}, {"valid[T,D]", valid[:2]}, {"valid[T,Dpadded,D]", [][]byte{valid[0], padded, valid[2]}}, {"valid[T+T,D,D]", [][]byte{t2, valid[1], valid[2]}}}
	_ = big
	for _, b := range bads {
		for pos := 0; pos <= 2; pos++ {
			var ms [][]byte
			ms = append(ms, valid[:pos]...)
			ms = append(ms, b.m)
			ms = append(ms, valid[pos:]...)
			out = append(out, c11stream{fmt.Sprintf("%s@%d", b.n, pos), ms})
		}
	}
	// a message larger than any read-ahead buffer (a 5000-byte string), between two small ones
	out = append(out, c11stream{"valid[T,D5000,D]", [][]byte{valid[0], big, valid[2]}})
	return out
}

func c11Cases(tier string) []c11case {
	streams := c11Streams()
	var cs []c11case
	for si, st := range streams {
		n := len(concat(st.msgs))
		for _, seg := range []bool{true, false} {
			cs = append(cs, c11case{Stream: si, SegRead: seg, CloseAt: -1})
			for a := 1; a < n; a++ {
				if n > 2000 && !(a < 80 || a%61 == 0 || a > n-80) {
					continue // the long stream: cuts near both ends and every 61st offset
				}
				cs = append(cs, c11case{Stream: si, Cuts: []int{a}, SegRead: seg, CloseAt: -1})
				if seg && si <= 3 {
					cs = append(cs, c11case{Stream: si, Cuts: []int{a}, SegRead: seg, CloseAt: -1, Pause: true})
				}
			}
			pairs := (si == 0 || tier == "thorough" || (si >= 4 && (si-4)%3 == 1)) && n < 2000
			if pairs {
				for a := 1; a < n; a++ {
					for b := a + 1; b < n; b++ {
						cs = append(cs, c11case{Stream: si, Cuts: []int{a, b}, SegRead: seg, CloseAt: -1})
					}
				}
			}
		}
		// a bystander in the same observation domain that goes on sending after this stream was cut off
		if si == 0 || si >= 4 {
			cs = append(cs, c11case{Stream: si, SegRead: true, CloseAt: -1, Shared: true}, c11case{Stream: si, SegRead: true, CloseAt: -1, Shared: true, Explore: true})
		}
		// peer closes after every prefix (abrupt close mid-message)
		if si <= 1 {
			for a := 0; a <= n; a++ {
				cs = append(cs, c11case{Stream: si, SegRead: true, CloseAt: a})
			}
		}
	}
	if tier == "thorough" {
		// triples on the 2-message stream
		n := len(concat(streams[1].msgs))
		for a := 1; a < n; a++ {
			for b := a + 1; b < n; b++ {
				for c := b + 1; c < n; c++ {
					cs = append(cs, c11case{Stream: 1, Cuts: []int{a, b, c}, SegRead: true, CloseAt: -1})
				}
			}
		}
		// every segmentation of the first 20 bytes (header + set header) of the valid stream
		for mask := 0; mask < 1<<19; mask++ {
			var cuts []int
			for i := 0; i < 19; i++ {
				if mask>>i&1 == 1 {
					cuts = append(cuts, i+1)
				}
			}
			if len(cuts) >= 3 {
				cs = append(cs, c11case{Stream: 1, Cuts: cuts, SegRead: true, CloseAt: -1})
			}
		}
		// schedule exploration (1 delay) around every single cut of the valid stream
		n0 := len(concat(streams[0].msgs))
		for a := 1; a < n0; a += 3 {
			cs = append(cs, c11case{Stream: 0, Cuts: []int{a}, SegRead: true, CloseAt: -1, Explore: true})
		}
	} else {
		n0 := len(concat(streams[1].msgs))
		for a := 1; a < n0; a += 8 {
			cs = append(cs, c11case{Stream: 1, Cuts: []int{a}, SegRead: true, CloseAt: -1, Explore: true})
		}
	}
	return cs
}

func c11Scenario(c c11case) *vsched.Scenario {
	st := c11Streams()[c.Stream]
	whole := concat(st.msgs)
	msgs := st.msgs
	if c.CloseAt >= 0 {
		whole = whole[:c.CloseAt]
		// only complete messages are expected
		var ms [][]byte
		off := 0
		for _, m := range st.msgs {
			if off+len(m) <= c.CloseAt {
				ms = append(ms, m)
			}
			off += len(m)
		}
		msgs = ms
	}
	segs := cutAt(whole, c.Cuts)
	a := colClient{domain: 1, segments: segs, messages: msgs, closeAtEnd: true, pause: c.Pause}
	other := colStream(2, 1)
	b := colClient{domain: 2, segments: other, messages: other, closeAtEnd: true}
	if c.Shared {
		other = colStreamT(1, 400, 2)
		b = colClient{domain: 1, tmplID: 400, segments: other, messages: other, closeAtEnd: true, hasWait: true, waitClosed: 0}
	}
	return colScenario("c11", []colClient{a, b}, colOpts{proto: "tcp", segmentReads: c.SegRead})
}

type c11res struct {
	Cases, Execs, Points, Steps int64
	Outcomes                    map[string]int64
	Problems                    []c11found
}

type c11found struct {
	Case    c11case
	Problem vsched.Problem
	Choices []int
}

func runC11(tier, replay string) int {
	rep := common.NewReporter("C11")
	streams := c11Streams()
	if tier == "replay" {
		r, err := common.ReadReplay(replay)
		if err != nil {
			fmt.Println(err)
			return 2
		}
		var tr struct {
			Case    c11case
			Choices []int
		}
		b, _ := json.Marshal(r.Trace)
		json.Unmarshal(b, &tr)
		fmt.Printf("stream=%s cuts=%v segmentReads=%v closeAt=%d\n", streams[tr.Case.Stream].name, tr.Case.Cuts, tr.Case.SegRead, tr.Case.CloseAt)
		sc := c11Scenario(tr.Case)
		o := sc.Run(tr.Choices)
		if p := sc.Judge(o); p != nil {
			fmt.Printf("replay: %s: %s\nVIOLATION property=C11 replay=%s\n", p.Kind, p.Detail, replay)
			return 1
		}
		fmt.Println("replay: no violation")
		return 0
	}
	cases := c11Cases(tier)
	shard, nsh := common.ShardInfo()
	if nsh > 0 {
		res := c11res{Outcomes: map[string]int64{}}
		for i, c := range cases {
			if i%nsh != shard {
				continue
			}
			if len(res.Problems) >= 3 {
				break // counterexamples found: no need to finish the enumeration
			}
			sc := c11Scenario(c)
			res.Cases++
			if c.Explore {
				cnt := vsched.Explore(sc, vsched.ExploreConfig{Bound: 1, Delay: true})
				res.Execs += cnt.Execs
				res.Points += cnt.Points
				res.Steps += cnt.Steps
				for _, f := range cnt.Problems {
					if len(res.Problems) < 10 {
						res.Problems = append(res.Problems, c11found{c, f.Problem, f.Choices})
					}
				}
				continue
			}
			o := sc.Run(nil)
			res.Execs++
			res.Points += int64(len(o.Points))
			res.Steps += int64(o.Steps)
			res.Outcomes[strings.Join(o.Log, "|")]++
			if p := sc.Judge(o); p != nil && len(res.Problems) < 10 {
				res.Problems = append(res.Problems, c11found{c, *p, nil})
			}
		}
		common.EmitResult(res)
		return 0
	}
	tot := c11res{Outcomes: map[string]int64{}}
	var all []c11found
	ok := common.RunShards(runtime.NumCPU(), nil, func(sh int, raw json.RawMessage) {
		var r c11res
		if json.Unmarshal(raw, &r) != nil {
			return
		}
		tot.Cases += r.Cases
		tot.Execs += r.Execs
		tot.Points += r.Points
		tot.Steps += r.Steps
		for k, v := range r.Outcomes {
			tot.Outcomes[k] += v
		}
		all = append(all, r.Problems...)
	})
	if !ok {
		return 2
	}
	seen := map[string]bool{}
	infra := false
	for _, f := range all {
		k := f.Problem.Kind + "|" + streams[f.Case.Stream].name
		if seen[k] {
			continue
		}
		seen[k] = true
		if _, known := rep.CheckKnown(f.Problem.Kind, f.Problem.Detail); known {
			continue
		}
		sc := c11Scenario(f.Case)
		if okc, why := e2Confirm(sc, vsched.Found{Problem: f.Problem, Choices: f.Choices}); !okc {
			fmt.Println("counterexample does not reproduce:", why)
			infra = true
			continue
		}
		rep.Report("c11", f.Problem.Kind, fmt.Sprintf("stream %s cuts=%v segmentReads=%v closeAt=%d sharedDomain=%v: %s", streams[f.Case.Stream].name, f.Case.Cuts, f.Case.SegRead, f.Case.CloseAt, f.Case.Shared, f.Problem.Detail),
			map[string]interface{}{"case": f.Case, "choices": f.Choices}, nil)
	}
	fmt.Printf("C11 %s: cases=%d executions=%d points=%d steps=%d distinct outcomes=%d violations=%d\n", tier, tot.Cases, tot.Execs, tot.Points, tot.Steps, len(tot.Outcomes), rep.Violations())
	var samples []interface{}
	for i, c := range cases {
		if i%(len(cases)/5+1) == 0 {
			samples = append(samples, map[string]interface{}{"stream": streams[c.Stream].name, "cuts": c.Cuts, "segment_reads": c.SegRead, "close_after_bytes": c.CloseAt})
		}
	}
	ev := &common.Evidence{PropertyID: "C11", Tier: tier}
	ev.Coverage = common.Coverage{
		"states": tot.Cases, "transitions": tot.Steps, "traces_validated_against_impl": tot.Execs, "samples": samples,
		"evaluations": tot.Execs, "distinct_nontrivial": tot.Cases,
		"rule":       "20 byte streams (five valid ones, one of them with a 5000-byte message, incl. a padded data set and a two-record template set; five kinds of undecodable message at each of three positions) x {no cut, every single cut (for the valid streams also with the sender pausing a second of virtual time at the cut), every pair of cuts (quick: for the valid stream and one position per bad kind; thorough: all)} x {reads return one segment, reads coalesce}, plus a peer close after every prefix, thorough: every triple on the two-message stream and all 2^19 segmentations of the first 20 bytes; each case is one execution of the real collector (Start() on the in-memory network, a second connection with a valid stream alongside - in another observation domain, and for every stream with an undecodable message also in the same domain with its own template id, sending on after the first connection was closed) under the controlled scheduler's default schedule, and a subset is additionally explored with one scheduling delay; oracle: deliveries = the decodable prefix of the stream, decoded correctly, connection closed by the collector after the first undecodable message, the other connection complete. distinct_nontrivial = distinct (stream, segmentation, read mode) cases",
		"exhaustive": true, "cases": tot.Cases, "distinct_observation_logs": len(tot.Outcomes),
	}
	ev.Assumptions = []string{"framing follows each message's own (correct) length field; after the first undecodable message nothing more is expected", "segment boundaries are exactly what a Read returns in segment mode; coalescing mode returns everything available"}
	ev.WallS = common.Since(rep.Start)
	ev.Violations = rep.Violations()
	common.WriteEvidence(ev)
	if infra {
		return 2
	}
	return rep.Finish()
}
