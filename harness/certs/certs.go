// Package certs mints throw-away P-256 certificates in process for the TLS/DTLS checks.
package certs

import (
	"crypto/ecdsa"
	"crypto/elliptic"
	"crypto/rand"
	"crypto/x509"
	"crypto/x509/pkix"
	"encoding/pem"
	"math/big"
	"net"
	"time"
)

type CA struct {
	Cert *x509.Certificate
	Key  *ecdsa.PrivateKey
	PEM  []byte
}

var serial int64 = 1000

func nextSerial() *big.Int { serial++; return big.NewInt(serial) }

func NewCA(cn string) *CA {
	key, err := ecdsa.GenerateKey(elliptic.P256(), rand.Reader)
	if err != nil {
		panic(err)
	}
	tmpl := &x509.Certificate{SerialNumber: nextSerial(), Subject: pkix.Name{CommonName: cn}, NotBefore: time.Now().Add(-time.Hour), NotAfter: time.Now().Add(24 * time.Hour),
		IsCA: true, BasicConstraintsValid: true, KeyUsage: x509.KeyUsageCertSign | x509.KeyUsageDigitalSignature}
	der, err := x509.CreateCertificate(rand.Reader, tmpl, tmpl, &key.PublicKey, key)
	if err != nil {
		panic(err)
	}
	cert, _ := x509.ParseCertificate(der)
	return &CA{Cert: cert, Key: key, PEM: pem.EncodeToMemory(&pem.Block{Type: "CERTIFICATE", Bytes: der})}
}

type Opts struct {
	CN        string
	DNS       []string
	IPs       []net.IP
	NotBefore time.Time
	NotAfter  time.Time
	Client    bool
	SelfSign  bool
}

// Issue returns (certPEM, keyPEM) signed by ca (or self-signed).
func (ca *CA) Issue(o Opts) ([]byte, []byte) {
	key, err := ecdsa.GenerateKey(elliptic.P256(), rand.Reader)
	if err != nil {
		panic(err)
	}
	if o.NotBefore.IsZero() {
		o.NotBefore = time.Now().Add(-time.Hour)
	}
	if o.NotAfter.IsZero() {
		o.NotAfter = time.Now().Add(12 * time.Hour)
	}
	eku := []x509.ExtKeyUsage{x509.ExtKeyUsageServerAuth}
	if o.Client {
		eku = []x509.ExtKeyUsage{x509.ExtKeyUsageClientAuth}
	}
	tmpl := &x509.Certificate{SerialNumber: nextSerial(), Subject: pkix.Name{CommonName: o.CN}, NotBefore: o.NotBefore, NotAfter: o.NotAfter,
		KeyUsage: x509.KeyUsageDigitalSignature, ExtKeyUsage: eku, DNSNames: o.DNS, IPAddresses: o.IPs}
	parent, pkey := ca.Cert, ca.Key
	if o.SelfSign {
		parent, pkey = tmpl, key
	}
	der, err := x509.CreateCertificate(rand.Reader, tmpl, parent, &key.PublicKey, pkey)
	if err != nil {
		panic(err)
	}
	kb, err := x509.MarshalECPrivateKey(key)
	if err != nil {
		panic(err)
	}
	return pem.EncodeToMemory(&pem.Block{Type: "CERTIFICATE", Bytes: der}), pem.EncodeToMemory(&pem.Block{Type: "EC PRIVATE KEY", Bytes: kb})
}

func Loopback() []net.IP { return []net.IP{net.ParseIP("127.0.0.1"), net.ParseIP("::1")} }
