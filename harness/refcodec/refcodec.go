// Package refcodec is an independent RFC 7011 encoder/parser used as the reference model by the
// checks. It shares no code with go-ipfix and imports nothing from it. Values are raw byte strings;
// a field's width comes from the template (Len 65535 = variable length).
package refcodec

import (
	"encoding/binary"
	"errors"
	"fmt"
)

const VarLen = 65535

type FieldSpec struct {
	ID  uint16 // 15-bit element id (without the enterprise bit)
	PEN uint32 // 0 = IANA
	Len uint16
}

type Template struct {
	ID     uint16
	Fields []FieldSpec
}

type Header struct {
	Version    uint16
	Length     uint16
	ExportTime uint32
	Seq        uint32
	Domain     uint32
}

func (h Header) Bytes() []byte {
	b := make([]byte, 16)
	binary.BigEndian.PutUint16(b[0:], h.Version)
	binary.BigEndian.PutUint16(b[2:], h.Length)
	binary.BigEndian.PutUint32(b[4:], h.ExportTime)
	binary.BigEndian.PutUint32(b[8:], h.Seq)
	binary.BigEndian.PutUint32(b[12:], h.Domain)
	return b
}

// Msg assembles header + one set (id, body). Length fields are computed unless overridden later.
func Msg(h Header, setID uint16, body []byte) []byte {
	total := 16 + 4 + len(body)
	h.Version = 10
	h.Length = uint16(total)
	out := append([]byte{}, h.Bytes()...)
	sh := make([]byte, 4)
	binary.BigEndian.PutUint16(sh[0:], setID)
	binary.BigEndian.PutUint16(sh[2:], uint16(4+len(body)))
	out = append(out, sh...)
	out = append(out, body...)
	return out
}

// TemplateBody encodes one template record.
func TemplateBody(t Template) []byte {
	b := make([]byte, 4)
	binary.BigEndian.PutUint16(b[0:], t.ID)
	binary.BigEndian.PutUint16(b[2:], uint16(len(t.Fields)))
	for _, f := range t.Fields {
		b = append(b, SpecBytes(f)...)
	}
	return b
}

func SpecBytes(f FieldSpec) []byte {
	s := make([]byte, 4)
	id := f.ID & 0x7fff
	if f.PEN != 0 {
		id |= 0x8000
	}
	binary.BigEndian.PutUint16(s[0:], id)
	binary.BigEndian.PutUint16(s[2:], f.Len)
	if f.PEN != 0 {
		p := make([]byte, 4)
		binary.BigEndian.PutUint32(p, f.PEN)
		s = append(s, p...)
	}
	return s
}

// EncodeField renders one field value per the template width.
func EncodeField(f FieldSpec, v []byte) []byte {
	if f.Len != VarLen {
		return append([]byte{}, v...)
	}
	if len(v) < 255 {
		return append([]byte{byte(len(v))}, v...)
	}
	out := []byte{0xff, byte(len(v) >> 8), byte(len(v))}
	return append(out, v...)
}

// EncodeRecord concatenates the fields of one record.
func EncodeRecord(t Template, vals [][]byte) []byte {
	var out []byte
	for i, f := range t.Fields {
		out = append(out, EncodeField(f, vals[i])...)
	}
	return out
}

func TemplateMsg(h Header, t Template) []byte { return Msg(h, 2, TemplateBody(t)) }

func DataMsg(h Header, t Template, records [][][]byte) []byte {
	var body []byte
	for _, r := range records {
		body = append(body, EncodeRecord(t, r)...)
	}
	return Msg(h, t.ID, body)
}

type Parsed struct {
	Header Header
	SetID  uint16
	SetLen uint16
	Body   []byte // everything after the set header
}

var ErrShort = errors.New("short")

// ParseMsg splits a message; it does not judge length fields (callers do).
func ParseMsg(b []byte) (Parsed, error) {
	var p Parsed
	if len(b) < 20 {
		return p, fmt.Errorf("message shorter than header+set header: %w", ErrShort)
	}
	p.Header = Header{binary.BigEndian.Uint16(b[0:]), binary.BigEndian.Uint16(b[2:]), binary.BigEndian.Uint32(b[4:]), binary.BigEndian.Uint32(b[8:]), binary.BigEndian.Uint32(b[12:])}
	p.SetID = binary.BigEndian.Uint16(b[16:])
	p.SetLen = binary.BigEndian.Uint16(b[18:])
	p.Body = b[20:]
	return p, nil
}

// StrictCheck verifies the framing rules an exporter must satisfy (C02).
func StrictCheck(b []byte) (Parsed, error) {
	p, err := ParseMsg(b)
	if err != nil {
		return p, err
	}
	if p.Header.Version != 10 {
		return p, fmt.Errorf("version %d", p.Header.Version)
	}
	if int(p.Header.Length) != len(b) {
		return p, fmt.Errorf("header length %d != bytes %d", p.Header.Length, len(b))
	}
	if int(p.SetLen) != len(b)-16 {
		return p, fmt.Errorf("set length %d != message length-16 = %d", p.SetLen, len(b)-16)
	}
	return p, nil
}

// ParseTemplateBody parses exactly one template record from body. consumedIDRead reports whether
// the template id could be read (4 bytes of record header present).
func ParseTemplateBody(body []byte) (t Template, rest []byte, idRead bool, err error) {
	if len(body) < 4 {
		return t, nil, false, fmt.Errorf("template record header: %w", ErrShort)
	}
	t.ID = binary.BigEndian.Uint16(body[0:])
	n := int(binary.BigEndian.Uint16(body[2:]))
	idRead = true
	p := body[4:]
	for i := 0; i < n; i++ {
		if len(p) < 4 {
			return t, nil, true, fmt.Errorf("field specifier %d: %w", i, ErrShort)
		}
		raw := binary.BigEndian.Uint16(p[0:])
		f := FieldSpec{ID: raw & 0x7fff, Len: binary.BigEndian.Uint16(p[2:])}
		p = p[4:]
		if raw&0x8000 != 0 {
			if len(p) < 4 {
				return t, nil, true, fmt.Errorf("enterprise number %d: %w", i, ErrShort)
			}
			f.PEN = binary.BigEndian.Uint32(p)
			p = p[4:]
			// note: PEN may be 0 on the wire with the E bit set; kept as is with EBit noted by caller if needed
		}
		t.Fields = append(t.Fields, f)
	}
	return t, p, true, nil
}

// MinRecordLen is the smallest encoding of one record under t.
func MinRecordLen(fields []FieldSpec) int {
	n := 0
	for _, f := range fields {
		if f.Len == VarLen {
			n++
		} else {
			n += int(f.Len)
		}
	}
	return n
}

// ParseDataBody parses records until fewer than MinRecordLen bytes remain (those are padding).
// A field or prefix running past the end is an error (no valid parse). A zero minimum record length
// admits no records (any non-empty body is then unparseable; an empty body has zero records).
func ParseDataBody(body []byte, fields []FieldSpec) (records [][][]byte, padding int, err error) {
	min := MinRecordLen(fields)
	p := body
	if min == 0 {
		if len(p) == 0 {
			return nil, 0, nil
		}
		return nil, 0, fmt.Errorf("template has zero minimum record length but body has %d bytes", len(p))
	}
	for len(p) >= min {
		var rec [][]byte
		for i, f := range fields {
			var n int
			if f.Len != VarLen {
				n = int(f.Len)
			} else {
				if len(p) < 1 {
					return nil, 0, fmt.Errorf("record %d field %d: prefix: %w", len(records), i, ErrShort)
				}
				if p[0] < 255 {
					n = int(p[0])
					p = p[1:]
				} else {
					if len(p) < 3 {
						return nil, 0, fmt.Errorf("record %d field %d: long prefix: %w", len(records), i, ErrShort)
					}
					n = int(binary.BigEndian.Uint16(p[1:]))
					p = p[3:]
				}
			}
			if len(p) < n {
				return nil, 0, fmt.Errorf("record %d field %d: need %d have %d: %w", len(records), i, n, len(p), ErrShort)
			}
			rec = append(rec, p[:n:n])
			p = p[n:]
		}
		records = append(records, rec)
	}
	return records, len(p), nil
}
