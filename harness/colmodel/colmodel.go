// Package colmodel is the reference model of the collector's template store and message decoding
// (tmplstore + refcodec of DESIGN §5). It consults go-ipfix only through the public registry lookup,
// to know what an (id, enterprise) pair *means* (name, type, width).
package colmodel

import (
	"fmt"
	"sort"
	"strings"

	"github.com/vmware/go-ipfix/pkg/entities"
	"github.com/vmware/go-ipfix/pkg/registry"

	"verifharness/common"
	"verifharness/refcodec"
)

type Mode int

const (
	Strict Mode = iota
	Keep
	Drop
)

func (m Mode) String() string { return [...]string{"strict", "keep", "drop"}[m] }

type Field struct {
	ID    uint16
	PEN   uint32
	Len   uint16 // width in force (registry width for known elements, wire width for unknown ones)
	// WireLen is the width the template announced. For a known element it may differ from the registry
	// width; the library decodes at the registry width, a library honouring the announced width would
	// also satisfy the statements, so both readings are accepted for THAT template (never for others).
	WireLen uint16
	Known bool
	Type  entities.IEDataType
	Name  string
}

type Key struct {
	Domain uint32
	ID     uint16
}

type Store struct {
	Mode Mode
	T    map[Key][]Field
}

func New(m Mode) *Store { return &Store{Mode: m, T: map[Key][]Field{}} }

type Kind int

const (
	MustErr  Kind = iota // implementation must return an error
	Template             // a template message with Fields (error not acceptable)
	Data                 // a data message with Records
)

type Expect struct {
	Kind       Kind
	Why        string
	ErrAllowed bool // for Data: an error is also acceptable (non-zero padding / zero records / ambiguous framing)
	Fields     []Field
	// Records: one or two acceptable readings (body to end of bytes; body as declared by set length)
	Records [][][]string
	Header  refcodec.Header
	SetID   uint16
}

// The model works on a private copy of the registry tables taken at start-up, so that a library bug
// which mutates the shared registry entries cannot drag the model along.
var snapshot map[[2]uint32]entities.InfoElement

// SnapshotRegistry copies every element of the given enterprises out of the library's registry.
func SnapshotRegistry(pens []uint32) {
	snapshot = map[[2]uint32]entities.InfoElement{}
	for _, pen := range pens {
		for id := 0; id < 65536; id++ {
			if ie, err := registry.GetInfoElementFromID(uint16(id), pen); err == nil && ie != nil {
				snapshot[[2]uint32{pen, uint32(id)}] = *ie
			}
		}
	}
}

func lookup(id uint16, pen uint32) (*entities.InfoElement, bool) {
	if snapshot != nil {
		ie, ok := snapshot[[2]uint32{pen, uint32(id)}]
		if !ok {
			return nil, false
		}
		return &ie, true
	}
	ie, err := registry.GetInfoElementFromID(id, pen)
	if err != nil {
		return nil, false
	}
	return ie, true
}

func specs(fs []Field) []refcodec.FieldSpec {
	out := make([]refcodec.FieldSpec, len(fs))
	for i, f := range fs {
		out[i] = refcodec.FieldSpec{ID: f.ID, PEN: f.PEN, Len: f.Len}
	}
	return out
}

// wireSpecs is the reading in which announced widths are honoured; ok=false when it equals specs.
func wireSpecs(fs []Field) ([]refcodec.FieldSpec, bool) {
	out := make([]refcodec.FieldSpec, len(fs))
	differs := false
	for i, f := range fs {
		out[i] = refcodec.FieldSpec{ID: f.ID, PEN: f.PEN, Len: f.WireLen}
		if f.WireLen != f.Len {
			differs = true
			if w := common.FixedWidth(f.Type); w != 0 && int(f.WireLen) > w {
				return nil, false // a width larger than the type's has no reading
			}
			if common.FixedWidth(f.Type) != 0 && f.WireLen != f.Len {
				return nil, false // reduced-size numeric encodings: no reference decoding here, reading not offered
			}
		}
	}
	return out, differs
}

// HasAnnouncedWidths reports whether some known field announced a width other than the registry's.
func HasAnnouncedWidths(fs []Field) bool {
	for _, f := range fs {
		if f.Known && f.WireLen != f.Len {
			return true
		}
	}
	return false
}

// Message advances the model by one received message and says what the implementation may do.
func (s *Store) Message(b []byte) Expect {
	p, err := refcodec.ParseMsg(b)
	if err != nil {
		return Expect{Kind: MustErr, Why: "shorter than 20 bytes"}
	}
	if p.Header.Version != 10 {
		return Expect{Kind: MustErr, Why: "version != 10"}
	}
	if p.SetID == 2 {
		return s.template(p)
	}
	return s.data(p, b)
}

func (s *Store) template(p refcodec.Parsed) Expect {
	t, _, idRead, err := refcodec.ParseTemplateBody(p.Body)
	if !idRead {
		return Expect{Kind: MustErr, Why: "template record header unreadable"}
	}
	k := Key{p.Header.Domain, t.ID}
	if err != nil {
		delete(s.T, k)
		return Expect{Kind: MustErr, Why: "template truncated: " + err.Error()}
	}
	var fields []Field
	for _, f := range t.Fields {
		ie, known := lookup(f.ID, f.PEN)
		if !known {
			if s.Mode == Strict {
				delete(s.T, k)
				return Expect{Kind: MustErr, Why: fmt.Sprintf("unknown element %d/%d in strict mode", f.PEN, f.ID)}
			}
			fields = append(fields, Field{ID: f.ID, PEN: f.PEN, Len: f.Len, WireLen: f.Len, Known: false, Type: entities.OctetArray})
			continue
		}
		if !common.SupportedType(ie.DataType) {
			delete(s.T, k)
			return Expect{Kind: MustErr, Why: fmt.Sprintf("element %s has unsupported type %d", ie.Name, ie.DataType)}
		}
		fields = append(fields, Field{ID: f.ID, PEN: f.PEN, Len: ie.Len, WireLen: f.Len, Known: true, Type: ie.DataType, Name: ie.Name})
	}
	s.T[k] = fields
	return Expect{Kind: Template, Fields: fields, Header: p.Header, SetID: 2}
}

func (s *Store) render(fields []Field, recs [][][]byte) [][]string {
	out := make([][]string, 0, len(recs))
	for _, r := range recs {
		var row []string
		for i, f := range fields {
			if !f.Known && s.Mode == Drop {
				continue
			}
			row = append(row, common.RefValue(f.Type, r[i]))
		}
		out = append(out, row)
	}
	return out
}

func (s *Store) data(p refcodec.Parsed, b []byte) Expect {
	fields, ok := s.T[Key{p.Header.Domain, p.SetID}]
	if !ok {
		return Expect{Kind: MustErr, Why: "no template"}
	}
	e := Expect{Kind: Data, Header: p.Header, SetID: p.SetID, Fields: fields}
	bodies := [][]byte{p.Body}
	if int(p.SetLen) >= 4 && int(p.SetLen) < len(b)-16 {
		bodies = append(bodies, b[20:16+int(p.SetLen)])
		e.ErrAllowed = true // framing disagrees with the bytes received: either reading, or a refusal
	}
	valid := 0
	readings := [][]refcodec.FieldSpec{specs(fields)}
	if ws, ok := wireSpecs(fields); ok {
		readings = append(readings, ws)
		e.ErrAllowed = true
	} else if HasAnnouncedWidths(fields) {
		e.ErrAllowed = true
	}
	for _, body := range bodies {
		for _, sp := range readings {
			recs, pad, err := refcodec.ParseDataBody(body, sp)
			if err != nil {
				continue
			}
			valid++
			// set padding (RFC 7011 3.3.1: shorter than any record, zero octets) belongs to a valid set, which
			// must be decoded; padding that is not zero, or a set holding nothing but padding, may be refused
			zeroPad := true
			for _, x := range body[len(body)-pad:] {
				if x != 0 {
					zeroPad = false
				}
			}
			if (pad > 0 && !zeroPad) || len(recs) == 0 {
				e.ErrAllowed = true
			}
			e.Records = append(e.Records, s.render(fields, recs))
		}
	}
	bodies = append(bodies, make([][]byte, (len(readings)-1)*len(bodies))...)
	if valid == 0 {
		return Expect{Kind: MustErr, Why: "set body has no valid parse under the template in force"}
	}
	if valid < len(bodies) {
		e.ErrAllowed = true
	}
	return e
}

// Canon renders the store canonically (same notation as ImplCanon in the harness).
func (s *Store) Canon() string { return s.CanonReading(false) }

// CanonReading renders the store; wire=true uses announced widths for known elements.
func (s *Store) CanonReading(wire bool) string {
	var keys []Key
	for k := range s.T {
		keys = append(keys, k)
	}
	sort.Slice(keys, func(i, j int) bool {
		if keys[i].Domain != keys[j].Domain {
			return keys[i].Domain < keys[j].Domain
		}
		return keys[i].ID < keys[j].ID
	})
	var sb strings.Builder
	for _, k := range keys {
		fmt.Fprintf(&sb, "[%d/%d:", k.Domain, k.ID)
		for _, f := range s.T[k] {
			l := f.Len
			if wire {
				l = f.WireLen
			}
			fmt.Fprintf(&sb, " %d.%d/%d/t%d/%q", f.PEN, f.ID, l, f.Type, f.Name)
		}
		sb.WriteString("]")
	}
	return sb.String()
}

// CanonExcept renders the store without one observation domain.
func (s *Store) CanonExcept(domain uint32, wire bool) string {
	c := &Store{Mode: s.Mode, T: map[Key][]Field{}}
	for k, v := range s.T {
		if k.Domain != domain {
			c.T[k] = v
		}
	}
	return c.CanonReading(wire)
}

// Held is one template as an implementation holds it.
type Held struct {
	ID  uint16
	IEs []entities.InfoElement
}

// AdoptDomain replaces the model's templates of one observation domain by what an implementation holds
// (used after a message whose effect inside its own domain the statements leave open).
func (s *Store) AdoptDomain(domain uint32, impl []Held) {
	for k := range s.T {
		if k.Domain == domain {
			delete(s.T, k)
		}
	}
	for _, t := range impl {
		fs := make([]Field, 0, len(t.IEs))
		for _, ie := range t.IEs {
			fs = append(fs, Field{ID: ie.ElementId, PEN: ie.EnterpriseId, Len: ie.Len, WireLen: ie.Len, Known: ie.Name != "", Type: ie.DataType, Name: ie.Name})
		}
		s.T[Key{domain, t.ID}] = fs
	}
}

// Domains lists observation domains with at least one template.
func (s *Store) Domains() []uint32 {
	m := map[uint32]bool{}
	for k := range s.T {
		m[k.Domain] = true
	}
	var out []uint32
	for d := range m {
		out = append(out, d)
	}
	sort.Slice(out, func(i, j int) bool { return out[i] < out[j] })
	return out
}
