// Package xplore is engine E1: explicit-state exploration of operation histories on the real
// implementation. Live objects are not cloned; a state is represented by the shortest history that
// reaches it and successors are produced by replaying that history on a fresh instance plus one op.
package xplore

import (
	"fmt"
	"sort"
	"strings"
	"sync"
	"sync/atomic"
	"time"
)

// Violation describes a failed oracle. Kind is a stable classifier (used for known-finding matching).
type Violation struct {
	Kind   string `json:"kind"`
	Detail string `json:"detail"`
}

func (v *Violation) Error() string { return v.Kind + ": " + v.Detail }

func V(kind, format string, a ...interface{}) *Violation {
	return &Violation{Kind: kind, Detail: fmt.Sprintf(format, a...)}
}

// Sys is one fresh instance of implementation + reference model.
type Sys interface {
	// Apply performs op on both and compares; non-nil = the oracle failed at this step.
	Apply(op int) *Violation
	// Canon renders the implementation's complete state canonically (for de-duplication).
	Canon() string
	// Close releases resources (goroutines, sockets).
	Close()
}

// Finisher is optionally implemented by a Sys: Finish runs once at the end of every executed history
// (after its last Apply), for oracles that must not disturb the object under test while the history is
// still running (e.g. forcing a lazily built buffer).
type Finisher interface {
	Finish() *Violation
}

type Config struct {
	Name       string
	NumOps     int
	OpName     func(op int) string
	New        func() Sys
	Enabled    func(hist []int, op int) bool // nil = all enabled
	HistDepth  int                           // pass (a): all histories up to this length
	StateDepth int                           // pass (b): BFS depth cap (0 = skip pass b)
	MaxStates  int                           // pass (b) cap on distinct states (0 = none)
	Workers    int
	Shard      int // process-level sharding of pass (a): this process runs histories with index % NShards == Shard
	NShards    int // 0/1 = no sharding; pass (b) runs in shard 0 only
	Deadline   time.Time // zero = none
	// Known reports whether a violation is a listed known finding (then it is not a failure and the
	// history is not extended).
	Known func(v *Violation, hist []int) (string, bool)
	// Interesting optionally classifies a canonical state as non-trivial (for evidence counts).
	Interesting func(canon string) bool
}

type Found struct {
	Hist  []int     `json:"hist"`
	Ops   []string  `json:"ops"`
	V     Violation `json:"violation"`
	Known string    `json:"known,omitempty"`
}

type Result struct {
	Histories      int64 // complete histories executed in pass (a)
	HistTransitions int64
	HistDepthDone  int
	HistExhaustive bool
	States         int64 // distinct canonical states in pass (b)
	InterestingStates int64
	StateTransitions int64
	StateDepthDone int
	Closed         bool
	Violations     []Found
	KnownHits      map[string]int
	CapsHit        []string
	Samples        [][]string
	DistinctOutcomes int
}

func (c *Config) names(h []int) []string {
	out := make([]string, len(h))
	for i, op := range h {
		out[i] = c.OpName(op)
	}
	return out
}

// Replay runs a history on a fresh instance and returns the first violation (with its step index).
func (c *Config) Replay(h []int) (int, *Violation) {
	s := c.New()
	defer s.Close()
	for i, op := range h {
		if v := s.Apply(op); v != nil {
			return i, v
		}
	}
	if f, ok := s.(Finisher); ok {
		if v := f.Finish(); v != nil {
			return len(h) - 1, v
		}
	}
	return -1, nil
}

type histKey string

func key(h []int) histKey {
	var sb strings.Builder
	for _, x := range h {
		fmt.Fprintf(&sb, "%d,", x)
	}
	return histKey(sb.String())
}

func (c *Config) enabled(h []int, op int) bool {
	if c.Enabled == nil {
		return true
	}
	return c.Enabled(h, op)
}

func (c *Config) expired() bool {
	return !c.Deadline.IsZero() && time.Now().After(c.Deadline)
}

// Run executes pass (a) then pass (b).
func Run(c *Config) *Result {
	if c.Workers <= 0 {
		c.Workers = 1
	}
	r := &Result{KnownHits: map[string]int{}}
	var mu sync.Mutex
	bad := map[histKey]bool{} // histories not to extend (violating or known finding)
	record := func(h []int, v *Violation) {
		mu.Lock()
		defer mu.Unlock()
		hh := append([]int{}, h...)
		bad[key(hh)] = true
		if c.Known != nil {
			if id, ok := c.Known(v, hh); ok {
				r.KnownHits[id]++
				return
			}
		}
		if len(r.Violations) < 50 {
			r.Violations = append(r.Violations, Found{Hist: hh, Ops: c.names(hh), V: *v})
		}
	}

	// ---- pass (a): level by level, every history of length L, enumerated by index (no
	// materialisation); with NShards > 1 this process executes the histories whose index is
	// congruent to Shard ----
	nsh, sh := c.NShards, c.Shard
	if nsh <= 0 {
		nsh, sh = 1, 0
	}
	r.HistExhaustive = true
	isBadPrefix := func(h []int) bool {
		mu.Lock()
		defer mu.Unlock()
		if len(bad) == 0 {
			return false
		}
		for j := 1; j <= len(h); j++ {
			if bad[key(h[:j])] {
				return true
			}
		}
		return false
	}
	for L := 1; L <= c.HistDepth; L++ {
		total := uint64(1)
		for i := 0; i < L; i++ {
			total *= uint64(c.NumOps)
		}
		var next uint64 // next index offset (in units of nsh) handed to a worker
		var wg sync.WaitGroup
		var aborted int32
		var executed int64
		var smu sync.Mutex
		for w := 0; w < c.Workers; w++ {
			wg.Add(1)
			go func() {
				defer wg.Done()
				h := make([]int, L)
				for {
					k := atomic.AddUint64(&next, 1) - 1
					n := k*uint64(nsh) + uint64(sh)
					if n >= total {
						break
					}
					if k%512 == 0 && c.expired() {
						atomic.StoreInt32(&aborted, 1)
						break
					}
					x := n
					for i := L - 1; i >= 0; i-- {
						h[i] = int(x % uint64(c.NumOps))
						x /= uint64(c.NumOps)
					}
					ok := true
					if c.Enabled != nil {
						for i := 0; i < L && ok; i++ {
							ok = c.Enabled(h[:i], h[i])
						}
					}
					if !ok || isBadPrefix(h[:L-1]) {
						continue
					}
					s := c.New()
					var viol *Violation
					at := -1
					for j, op := range h {
						viol = s.Apply(op)
						if viol != nil {
							at = j
							break
						}
					}
					if viol == nil {
						if f, ok := s.(Finisher); ok {
							if viol = f.Finish(); viol != nil {
								at = L - 1
							}
						}
					}
					s.Close()
					atomic.AddInt64(&executed, 1)
					atomic.AddInt64(&r.HistTransitions, int64(L))
					if viol != nil {
						if at != L-1 && nsh == 1 && len(r.CapsHit) == 0 {
							viol = V("NONDETERMINISM", "prefix step %d failed on replay although the prefix passed at the previous level: %s", at, viol.Error())
						}
						record(h[:at+1], viol)
						continue
					}
					if k%4099 == 0 {
						smu.Lock()
						if len(r.Samples) < 8 {
							r.Samples = append(r.Samples, c.names(h))
						}
						smu.Unlock()
					}
				}
			}()
		}
		wg.Wait()
		r.Histories += executed
		if aborted != 0 {
			r.HistExhaustive = false
			r.CapsHit = append(r.CapsHit, fmt.Sprintf("pass(a) deadline hit at depth %d", L))
			break
		}
		r.HistDepthDone = L
		if len(r.Violations) > 0 {
			break // shortest counterexamples found; stop
		}
	}
	if nsh > 1 && sh != 0 {
		return r
	}
	if len(r.Violations) > 0 || c.StateDepth == 0 {
		return r
	}

	// ---- pass (b): BFS de-duplicated on Canon ----
	seen := map[string]bool{}
	init := c.New()
	seen[init.Canon()] = true
	init.Close()
	r.States = 1
	frontier := [][]int{{}}
	outcomes := map[string]bool{}
	r.Closed = false
	for d := 1; d <= c.StateDepth && len(frontier) > 0; d++ {
		type succ struct {
			h     []int
			canon string
		}
		var idx int64 = -1
		var wg sync.WaitGroup
		var smu sync.Mutex
		var nextF [][]int
		var aborted int32
		for w := 0; w < c.Workers; w++ {
			wg.Add(1)
			go func() {
				defer wg.Done()
				for {
					i := atomic.AddInt64(&idx, 1)
					if int(i) >= len(frontier) {
						break
					}
					if c.expired() {
						atomic.StoreInt32(&aborted, 1)
						break
					}
					p := frontier[i]
					for op := 0; op < c.NumOps; op++ {
						if !c.enabled(p, op) {
							continue
						}
						mu.Lock()
						isBad := bad[key(append(append([]int{}, p...), op))]
						mu.Unlock()
						if isBad {
							continue
						}
						s := c.New()
						var viol *Violation
						h := append(append([]int{}, p...), op)
						for j, o := range h {
							viol = s.Apply(o)
							if viol != nil {
								if j != len(h)-1 {
									viol = V("NONDETERMINISM", "prefix step %d failed on replay: %s", j, viol.Error())
								}
								break
							}
						}
						atomic.AddInt64(&r.StateTransitions, 1)
						if viol != nil {
							s.Close()
							record(h, viol)
							continue
						}
						cn := s.Canon()
						s.Close()
						smu.Lock()
						if !seen[cn] {
							seen[cn] = true
							r.States++
							if c.Interesting != nil && c.Interesting(cn) {
								r.InterestingStates++
							}
							nextF = append(nextF, h)
						}
						smu.Unlock()
					}
				}
			}()
		}
		wg.Wait()
		if aborted != 0 {
			r.CapsHit = append(r.CapsHit, fmt.Sprintf("pass(b) deadline hit at depth %d", d))
			frontier = nextF
			break
		}
		r.StateDepthDone = d
		sort.Slice(nextF, func(i, j int) bool { return key(nextF[i]) < key(nextF[j]) })
		frontier = nextF
		if len(frontier) > 0 && len(r.Samples) < 12 {
			r.Samples = append(r.Samples, c.names(frontier[len(frontier)/2]))
		}
		if c.MaxStates > 0 && int(r.States) > c.MaxStates {
			r.CapsHit = append(r.CapsHit, fmt.Sprintf("pass(b) state cap %d hit at depth %d", c.MaxStates, d))
			break
		}
		if len(r.Violations) > 0 {
			break
		}
	}
	r.Closed = len(frontier) == 0 && len(r.Violations) == 0
	r.DistinctOutcomes = len(outcomes)
	return r
}
