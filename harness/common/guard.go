package common

import (
	"fmt"
	"os"
	"runtime"
	"sync"
	"sync/atomic"
	"time"
)

// Guard watches code under test that runs inside the checking process itself. A decoder that a change has
// turned into an endless or memory-eating loop would otherwise take the whole check down (fatal "out of
// memory" cannot be recovered) and leave no verdict. Every case registers while it runs; a watchdog ends the
// process with a proper report - naming the case in flight longest - when one case runs longer than Timeout
// or the heap passes HeapLimit.
type Guard struct {
	mu        sync.Mutex
	slots     map[*GuardSlot]struct{}
	Timeout   time.Duration
	HeapLimit uint64
	// OnDeath must not return (report, then os.Exit).
	OnDeath func(kind, detail string, what interface{})
}

type GuardSlot struct {
	g     *Guard
	what  atomic.Value // *guardWhat
	since atomic.Int64 // UnixNano
}

type guardWhat struct{ v interface{} }

func NewGuard(timeout time.Duration, heapLimit uint64, onDeath func(kind, detail string, what interface{})) *Guard {
	g := &Guard{slots: map[*GuardSlot]struct{}{}, Timeout: timeout, HeapLimit: heapLimit, OnDeath: onDeath}
	go g.watch()
	return g
}

func (g *Guard) Enter(what interface{}) *GuardSlot {
	s := &GuardSlot{g: g}
	s.what.Store(&guardWhat{what})
	s.since.Store(time.Now().UnixNano())
	g.mu.Lock()
	g.slots[s] = struct{}{}
	g.mu.Unlock()
	return s
}

// Update replaces the description of the case in flight (a history that grew by one operation).
func (s *GuardSlot) Update(what interface{}) {
	s.what.Store(&guardWhat{what})
	s.since.Store(time.Now().UnixNano())
}

// Idle marks the slot as not running anything (between two operations of one history).
func (s *GuardSlot) Idle() { s.since.Store(1<<63 - 1) }

func (s *GuardSlot) age() time.Duration { return time.Duration(time.Now().UnixNano() - s.since.Load()) }
func (s *GuardSlot) desc() interface{}  { return s.what.Load().(*guardWhat).v }

func (s *GuardSlot) Leave() {
	s.g.mu.Lock()
	delete(s.g.slots, s)
	s.g.mu.Unlock()
}

func (g *Guard) oldest() (*GuardSlot, int) {
	g.mu.Lock()
	defer g.mu.Unlock()
	var o *GuardSlot
	for s := range g.slots {
		if s.since.Load() == 1<<63-1 {
			continue
		}
		if o == nil || s.since.Load() < o.since.Load() {
			o = s
		}
	}
	return o, len(g.slots)
}

func (g *Guard) watch() {
	var ms runtime.MemStats
	for {
		time.Sleep(50 * time.Millisecond)
		o, n := g.oldest()
		if o == nil {
			continue
		}
		if o.age() > g.Timeout {
			g.OnDeath("hang", fmt.Sprintf("did not finish within %v (normal: well under a millisecond)", g.Timeout), o.desc())
		}
		runtime.ReadMemStats(&ms)
		if ms.HeapAlloc > g.HeapLimit {
			g.OnDeath("memory", fmt.Sprintf("the heap grew to %d MiB while this case was running (%d cases in flight; this one the longest, for %v)", ms.HeapAlloc>>20, n, o.age().Round(time.Millisecond)), o.desc())
		}
	}
}

// ReportingGuard ends the run with a VIOLATION for the reporter's property (or, while replaying, for the
// replay file) when the code under test hangs or eats memory. describe turns the registered case into the
// scenario name and the replay trace.
func ReportingGuard(rep *Reporter, replayPath string, describe func(what interface{}) (scenario string, text string, trace interface{})) *Guard {
	return NewGuard(60*time.Second, 6<<30, func(kind, detail string, what interface{}) {
		sc, text, trace := describe(what)
		if replayPath != "" {
			fmt.Printf("replay: %s: %s: %s\nVIOLATION property=%s replay=%s\n", kind, text, detail, rep.Property, replayPath)
			exitNow(1)
		}
		rep.Report(sc, kind, text+": "+detail, trace, nil)
		rep.Finish()
		exitNow(1)
	})
}

func exitNow(code int) {
	os.Stdout.Sync()
	os.Exit(code)
}
