package common

import (
	"bufio"
	"encoding/json"
	"fmt"
	"os"
	"os/exec"
	"strconv"
	"strings"
	"sync"
)

// ShardInfo returns (shard, nshards) when this process is a shard worker (nshards == 0 otherwise).
func ShardInfo() (int, int) {
	n, _ := strconv.Atoi(os.Getenv("VERIF_NSHARDS"))
	s, _ := strconv.Atoi(os.Getenv("VERIF_SHARD"))
	return s, n
}

// Claim hands out work items dynamically: the first shard to ask for a key gets it. The claims live in a
// scratch directory the parent creates for the run (VERIF_CLAIMDIR) and removes afterwards; without one the
// static split n % nshards == shard is used.
func Claim(key string, n int) bool {
	dir := os.Getenv("VERIF_CLAIMDIR")
	shard, nsh := ShardInfo()
	if dir == "" {
		return nsh == 0 || n%nsh == shard
	}
	f, err := os.OpenFile(dir+"/"+key, os.O_CREATE|os.O_EXCL|os.O_WRONLY, 0o600)
	if err != nil {
		return false
	}
	f.Close()
	return true
}

// EmitResult prints a shard's result for the parent.
func EmitResult(v interface{}) {
	b, _ := json.Marshal(v)
	fmt.Printf("RESULT %s\n", b)
}

// RunShards re-executes this binary n times with the same arguments plus VERIF_SHARD/VERIF_NSHARDS
// (and extra env), and hands every RESULT line to collect. Returns false on an infrastructure failure.
func RunShards(n int, extraEnv []string, collect func(shard int, raw json.RawMessage)) bool {
	self, _ := os.Executable()
	if dir, err := os.MkdirTemp("", "verif-claims-"); err == nil {
		defer os.RemoveAll(dir)
		extraEnv = append(append([]string{}, extraEnv...), "VERIF_CLAIMDIR="+dir)
	}
	var wg sync.WaitGroup
	var mu sync.Mutex
	ok := true
	for i := 0; i < n; i++ {
		wg.Add(1)
		go func(i int) {
			defer wg.Done()
			cmd := exec.Command(self, os.Args[1:]...)
			cmd.Env = append(append(os.Environ(), extraEnv...), fmt.Sprintf("VERIF_SHARD=%d", i), fmt.Sprintf("VERIF_NSHARDS=%d", n), "GOMAXPROCS=2")
			cmd.Stderr = os.Stderr
			out, err := cmd.StdoutPipe()
			if err != nil {
				mu.Lock()
				ok = false
				mu.Unlock()
				return
			}
			if err := cmd.Start(); err != nil {
				mu.Lock()
				ok = false
				mu.Unlock()
				return
			}
			sc := bufio.NewScanner(out)
			sc.Buffer(make([]byte, 1<<20), 1<<28)
			got := false
			for sc.Scan() {
				line := sc.Text()
				if strings.HasPrefix(line, "RESULT ") {
					mu.Lock()
					collect(i, json.RawMessage(line[7:]))
					mu.Unlock()
					got = true
				} else {
					fmt.Println(line)
				}
			}
			if err := cmd.Wait(); err != nil || !got {
				fmt.Fprintf(os.Stderr, "shard %d failed: %v (result received: %v)\n", i, err, got)
				mu.Lock()
				ok = false
				mu.Unlock()
			}
		}(i)
	}
	wg.Wait()
	return ok
}
