// Package common: evidence files, replay artefacts, known-findings matching, small helpers shared by
// all harnesses.
package common

import (
	"crypto/sha1"
	"encoding/hex"
	"encoding/json"
	"fmt"
	"os"
	"path/filepath"
	"strconv"
	"strings"
	"sync"
	"time"
)

const VerifDir = "/verif"

type Coverage map[string]interface{}

type Evidence struct {
	PropertyID  string   `json:"property_id"`
	Tier        string   `json:"tier"`
	Seed        int      `json:"seed"`
	Level       string   `json:"level"`
	Coverage    Coverage `json:"coverage"`
	Assumptions []string `json:"assumptions,omitempty"`
	WallS       float64  `json:"wall_s"`
	Violations  int      `json:"violations"`
}

func Seed() int {
	n, _ := strconv.Atoi(os.Getenv("VERIF_SEED"))
	return n
}

func WriteEvidence(e *Evidence) {
	e.Level = "model_checking"
	e.Seed = Seed()
	dir := filepath.Join(VerifDir, "evidence")
	os.MkdirAll(dir, 0o755)
	b, err := json.MarshalIndent(e, "", " ")
	if err != nil {
		panic(err)
	}
	tmp := filepath.Join(dir, e.PropertyID+".json.tmp")
	if err := os.WriteFile(tmp, b, 0o644); err != nil {
		panic(err)
	}
	os.Rename(tmp, filepath.Join(dir, e.PropertyID+".json"))
}

// ---- known findings ----

type Finding struct {
	Status   string `json:"status"` // "known" | "fixed"
	Property string `json:"property"`
	ID       string `json:"id"`
	Kind     string `json:"kind"`     // violation kind to match (exact)
	Contains string `json:"contains"` // substring that must occur in the detail ("" = any)
	What     string `json:"what"`
	Commit   string `json:"commit,omitempty"`
}

type FindingsFile struct {
	Findings []Finding `json:"findings"`
}

var (
	findingsOnce sync.Once
	findings     FindingsFile
)

func loadFindings() {
	b, err := os.ReadFile(filepath.Join(VerifDir, "known_findings.json"))
	if err != nil {
		return
	}
	if err := json.Unmarshal(b, &findings); err != nil {
		fmt.Fprintf(os.Stderr, "known_findings.json: %v\n", err)
		os.Exit(2)
	}
}

// MatchKnown returns the id of a listed *known* (not fixed) finding matching the violation.
func MatchKnown(property, kind, detail string) (string, bool) {
	findingsOnce.Do(loadFindings)
	for _, f := range findings.Findings {
		if f.Status != "known" || f.Property != property {
			continue
		}
		if f.Kind != kind {
			continue
		}
		if f.Contains != "" && !strings.Contains(detail, f.Contains) {
			continue
		}
		return f.ID, true
	}
	return "", false
}

func KnownWhat(id string) string {
	findingsOnce.Do(loadFindings)
	for _, f := range findings.Findings {
		if f.ID == id {
			return f.What
		}
	}
	return ""
}

// ---- replay artefacts ----

type Replay struct {
	Property string      `json:"property"`
	Scenario string      `json:"scenario"`
	Kind     string      `json:"kind"`
	Detail   string      `json:"detail"`
	Trace    interface{} `json:"trace"`
	Extra    interface{} `json:"extra,omitempty"`
}

// WriteReplay stores a counterexample and returns its path.
func WriteReplay(r *Replay) string {
	dir := filepath.Join(VerifDir, "replays")
	os.MkdirAll(dir, 0o755)
	b, _ := json.MarshalIndent(r, "", " ")
	h := sha1.Sum(b)
	p := filepath.Join(dir, fmt.Sprintf("%s-%s.json", r.Property, hex.EncodeToString(h[:5])))
	os.WriteFile(p, b, 0o644)
	return p
}

func ReadReplay(path string) (*Replay, error) {
	b, err := os.ReadFile(path)
	if err != nil {
		return nil, err
	}
	var r Replay
	if err := json.Unmarshal(b, &r); err != nil {
		return nil, err
	}
	return &r, nil
}

// Reporter accumulates violations / known findings for one check run and prints the interface lines.
type Reporter struct {
	Property string
	mu       sync.Mutex
	viol     int
	known    map[string]int
	printed  map[string]bool
	Start    time.Time
}

func NewReporter(property string) *Reporter {
	return &Reporter{Property: property, known: map[string]int{}, printed: map[string]bool{}, Start: time.Now()}
}

// Report handles one failed oracle: known finding -> counted; else replay + VIOLATION line.
// Returns true when it was a known finding.
func (r *Reporter) Report(scenario, kind, detail string, trace interface{}, extra interface{}) bool {
	r.mu.Lock()
	defer r.mu.Unlock()
	if id, ok := MatchKnown(r.Property, kind, detail); ok {
		r.known[id]++
		return true
	}
	r.viol++
	if r.viol <= 20 {
		p := WriteReplay(&Replay{Property: r.Property, Scenario: scenario, Kind: kind, Detail: detail, Trace: trace, Extra: extra})
		fmt.Printf("VIOLATION property=%s replay=%s\n", r.Property, p)
		d := detail
		if len(d) > 600 {
			d = d[:600] + "..."
		}
		fmt.Printf("  scenario=%s kind=%s detail=%s\n", scenario, kind, d)
	}
	return false
}

// CheckKnown counts and reports whether (kind, detail) is a listed known finding.
func (r *Reporter) CheckKnown(kind, detail string) (string, bool) {
	r.mu.Lock()
	defer r.mu.Unlock()
	id, ok := MatchKnown(r.Property, kind, detail)
	if ok {
		r.known[id]++
	}
	return id, ok
}

func (r *Reporter) Violations() int { r.mu.Lock(); defer r.mu.Unlock(); return r.viol }

func (r *Reporter) KnownHits() map[string]int {
	r.mu.Lock()
	defer r.mu.Unlock()
	out := map[string]int{}
	for k, v := range r.known {
		out[k] = v
	}
	return out
}

// Finish prints KNOWN-FINDING lines and returns the process exit code.
func (r *Reporter) Finish() int {
	r.mu.Lock()
	defer r.mu.Unlock()
	for id, n := range r.known {
		fmt.Printf("KNOWN-FINDING: property=%s %s: %s (matched %d explored cases)\n", r.Property, id, KnownWhat(id), n)
	}
	if r.viol > 0 {
		return 1
	}
	return 0
}

func Tier() string {
	if len(os.Args) > 2 {
		return os.Args[2]
	}
	if t := os.Getenv("VERIF_TIER"); t != "" {
		return t
	}
	return "quick"
}

func Since(t time.Time) float64 { return float64(time.Since(t).Milliseconds()) / 1000 }
