package common

import (
	"encoding/binary"
	"fmt"
	"math"

	"github.com/vmware/go-ipfix/pkg/entities"
)

// RefValue renders the semantic value RFC 7011 assigns to raw field bytes of the given type.
// Written from the RFC, not from the library's decoder.
func RefValue(dt entities.IEDataType, raw []byte) string {
	switch dt {
	case entities.OctetArray:
		return fmt.Sprintf("oct:%x", raw)
	case entities.Unsigned8:
		return fmt.Sprintf("u8:%d", raw[0])
	case entities.Unsigned16:
		return fmt.Sprintf("u16:%d", binary.BigEndian.Uint16(raw))
	case entities.Unsigned32:
		return fmt.Sprintf("u32:%d", binary.BigEndian.Uint32(raw))
	case entities.Unsigned64:
		return fmt.Sprintf("u64:%d", binary.BigEndian.Uint64(raw))
	case entities.Signed8:
		return fmt.Sprintf("i8:%d", int8(raw[0]))
	case entities.Signed16:
		return fmt.Sprintf("i16:%d", int16(binary.BigEndian.Uint16(raw)))
	case entities.Signed32:
		return fmt.Sprintf("i32:%d", int32(binary.BigEndian.Uint32(raw)))
	case entities.Signed64:
		return fmt.Sprintf("i64:%d", int64(binary.BigEndian.Uint64(raw)))
	case entities.Float32:
		return fmt.Sprintf("f32:%08x", binary.BigEndian.Uint32(raw))
	case entities.Float64:
		return fmt.Sprintf("f64:%016x", binary.BigEndian.Uint64(raw))
	case entities.Boolean:
		return fmt.Sprintf("bool:%v", raw[0] == 1)
	case entities.MacAddress:
		return fmt.Sprintf("mac:%x", raw)
	case entities.String:
		return fmt.Sprintf("str:%x", raw)
	case entities.DateTimeSeconds:
		return fmt.Sprintf("dts:%d", binary.BigEndian.Uint32(raw))
	case entities.DateTimeMilliseconds:
		return fmt.Sprintf("dtms:%d", binary.BigEndian.Uint64(raw))
	case entities.Ipv4Address:
		return fmt.Sprintf("ip4:%x", raw)
	case entities.Ipv6Address:
		return fmt.Sprintf("ip6:%x", raw)
	}
	return fmt.Sprintf("unsupported-type-%d:%x", dt, raw)
}

// ImplValue renders the value held by a library element in the same notation as RefValue.
func ImplValue(e entities.InfoElementWithValue) (s string) {
	defer func() {
		if r := recover(); r != nil {
			s = fmt.Sprintf("PANIC(%v)", r)
		}
	}()
	switch e.GetDataType() {
	case entities.OctetArray:
		return fmt.Sprintf("oct:%x", e.GetOctetArrayValue())
	case entities.Unsigned8:
		return fmt.Sprintf("u8:%d", e.GetUnsigned8Value())
	case entities.Unsigned16:
		return fmt.Sprintf("u16:%d", e.GetUnsigned16Value())
	case entities.Unsigned32:
		return fmt.Sprintf("u32:%d", e.GetUnsigned32Value())
	case entities.Unsigned64:
		return fmt.Sprintf("u64:%d", e.GetUnsigned64Value())
	case entities.Signed8:
		return fmt.Sprintf("i8:%d", e.GetSigned8Value())
	case entities.Signed16:
		return fmt.Sprintf("i16:%d", e.GetSigned16Value())
	case entities.Signed32:
		return fmt.Sprintf("i32:%d", e.GetSigned32Value())
	case entities.Signed64:
		return fmt.Sprintf("i64:%d", e.GetSigned64Value())
	case entities.Float32:
		return fmt.Sprintf("f32:%08x", math.Float32bits(e.GetFloat32Value()))
	case entities.Float64:
		return fmt.Sprintf("f64:%016x", math.Float64bits(e.GetFloat64Value()))
	case entities.Boolean:
		return fmt.Sprintf("bool:%v", e.GetBooleanValue())
	case entities.MacAddress:
		return fmt.Sprintf("mac:%x", []byte(e.GetMacAddressValue()))
	case entities.String:
		return fmt.Sprintf("str:%x", []byte(e.GetStringValue()))
	case entities.DateTimeSeconds:
		return fmt.Sprintf("dts:%d", e.GetUnsigned32Value())
	case entities.DateTimeMilliseconds:
		return fmt.Sprintf("dtms:%d", e.GetUnsigned64Value())
	case entities.Ipv4Address:
		return fmt.Sprintf("ip4:%x", []byte(e.GetIPAddressValue()))
	case entities.Ipv6Address:
		return fmt.Sprintf("ip6:%x", []byte(e.GetIPAddressValue()))
	}
	return fmt.Sprintf("unsupported-type-%d", e.GetDataType())
}

// SupportedType reports whether the library claims to support values of this type.
func SupportedType(dt entities.IEDataType) bool {
	switch dt {
	case entities.OctetArray, entities.Unsigned8, entities.Unsigned16, entities.Unsigned32, entities.Unsigned64,
		entities.Signed8, entities.Signed16, entities.Signed32, entities.Signed64, entities.Float32, entities.Float64,
		entities.Boolean, entities.MacAddress, entities.String, entities.DateTimeSeconds, entities.DateTimeMilliseconds,
		entities.Ipv4Address, entities.Ipv6Address:
		return true
	}
	return false
}

// FixedWidth is the RFC width of a fixed-size type (0 = variable).
func FixedWidth(dt entities.IEDataType) int {
	switch dt {
	case entities.Unsigned8, entities.Signed8, entities.Boolean:
		return 1
	case entities.Unsigned16, entities.Signed16:
		return 2
	case entities.Unsigned32, entities.Signed32, entities.Float32, entities.DateTimeSeconds, entities.Ipv4Address:
		return 4
	case entities.Unsigned64, entities.Signed64, entities.Float64, entities.DateTimeMilliseconds:
		return 8
	case entities.MacAddress:
		return 6
	case entities.Ipv6Address:
		return 16
	}
	return 0
}
