// Package colcheck compares what the real collector did with one message against colmodel's Expect,
// and renders the implementation's template table in the model's notation.
package colcheck

import (
	"fmt"
	"strings"

	"github.com/vmware/go-ipfix/pkg/collector"
	"github.com/vmware/go-ipfix/pkg/entities"

	"verifharness/colmodel"
	"verifharness/common"
	"verifharness/xplore"
)

func ModeOf(m colmodel.Mode) collector.DecodingMode {
	switch m {
	case colmodel.Keep:
		return collector.DecodingModeLenientKeepUnknown
	case colmodel.Drop:
		return collector.DecodingModeLenientDropUnknown
	}
	return collector.DecodingModeStrict
}

func implRecords(set entities.Set) [][]string {
	var out [][]string
	for _, r := range set.GetRecords() {
		var row []string
		for _, e := range r.GetOrderedElementList() {
			row = append(row, common.ImplValue(e))
		}
		out = append(out, row)
	}
	return out
}

var probeIE = entities.NewInfoElement("verifProbe", 990, entities.Unsigned64, 55555, 8)

// independent: the records of a delivered set are separate objects. A consumer that appends fields to one
// of them - the flow aggregation process does exactly that with the records the collector hands it - must
// not change any other record of the set.
func independent(set entities.Set, before [][]string) *xplore.Violation {
	recs := set.GetRecords()
	if len(recs) < 2 {
		return nil
	}
	for i, r := range recs {
		for k := 0; k < 3; k++ {
			if err := r.AddInfoElement(entities.NewUnsigned64InfoElement(probeIE, 0xEEEEEEEE00000000+uint64(i)<<8+uint64(k))); err != nil {
				return nil // appending is not possible on this record kind: nothing to probe
			}
		}
	}
	for i, r := range recs {
		els := r.GetOrderedElementList()
		if len(els) != len(before[i])+3 {
			return xplore.V("records-aliased", "after appending 3 fields to every record of the delivered set, record %d has %d fields instead of %d", i, len(els), len(before[i])+3)
		}
		for j := range before[i] {
			if got := common.ImplValue(els[j]); got != before[i][j] {
				return xplore.V("records-aliased", "appending fields to the records of a delivered set changed record %d field %d from %s to %s (records share storage)", i, j, before[i][j], got)
			}
		}
	}
	return nil
}

func eqRecs(a, b [][]string) bool {
	if len(a) != len(b) {
		return false
	}
	for i := range a {
		if len(a[i]) != len(b[i]) {
			return false
		}
		for j := range a[i] {
			if a[i][j] != b[i][j] {
				return false
			}
		}
	}
	return true
}

func short(s string) string {
	if len(s) > 400 {
		return s[:400] + "..."
	}
	return s
}

// Judge returns nil when the implementation's outcome is one the model accepts.
func Judge(mode colmodel.Mode, exp colmodel.Expect, msg *entities.Message, err error) *xplore.Violation {
	switch exp.Kind {
	case colmodel.MustErr:
		if err == nil {
			return xplore.V("accepted-invalid", "model: must be refused (%s); implementation delivered a message: %s", exp.Why, short(describe(msg)))
		}
		return nil
	case colmodel.Template:
		if err != nil {
			return xplore.V("rejected-valid-template", "valid template refused: %v", err)
		}
		if v := header(exp, msg); v != nil {
			return v
		}
		set := msg.GetSet()
		if set.GetSetType() != entities.Template || len(set.GetRecords()) != 1 {
			return xplore.V("template-shape", "expected a template set with one record, got type %d with %d records", set.GetSetType(), len(set.GetRecords()))
		}
		rec := set.GetRecords()[0]
		els := rec.GetOrderedElementList()
		if len(els) != len(exp.Fields) {
			return xplore.V("template-fields", "field count %d, wire has %d", len(els), len(exp.Fields))
		}
		for i, f := range exp.Fields {
			ie := els[i].GetInfoElement()
			if ie.ElementId != f.ID || ie.EnterpriseId != f.PEN {
				return xplore.V("template-fields", "field %d is %d/%d, wire has %d/%d", i, ie.EnterpriseId, ie.ElementId, f.PEN, f.ID)
			}
			if f.Known && (ie.Name != f.Name || ie.DataType != f.Type || (ie.Len != f.Len && ie.Len != f.WireLen)) {
				return xplore.V("template-fields", "field %d (%s) delivered as name=%q type=%d len=%d, registry says type=%d len=%d", i, f.Name, ie.Name, ie.DataType, ie.Len, f.Type, f.Len)
			}
			if !f.Known && (ie.DataType != entities.OctetArray || ie.Len != f.Len || ie.Name != "") {
				return xplore.V("template-fields", "unknown field %d delivered as name=%q type=%d len=%d, wire len=%d", i, ie.Name, ie.DataType, ie.Len, f.Len)
			}
		}
		return nil
	case colmodel.Data:
		if err != nil {
			if exp.ErrAllowed {
				return nil
			}
			return xplore.V("rejected-valid-data", "valid data set refused: %v", err)
		}
		if v := header(exp, msg); v != nil {
			return v
		}
		set := msg.GetSet()
		if set.GetSetType() != entities.Data {
			return xplore.V("data-shape", "expected a data set, got type %d", set.GetSetType())
		}
		got := implRecords(set)
		for _, want := range exp.Records {
			if eqRecs(got, want) {
				// element identity per record
				for ri, r := range set.GetRecords() {
					if r.GetTemplateID() != exp.SetID {
						return xplore.V("data-shape", "record %d has template id %d, set id is %d", ri, r.GetTemplateID(), exp.SetID)
					}
					j := 0
					for _, f := range exp.Fields {
						if !f.Known && mode == colmodel.Drop {
							continue
						}
						ie := r.GetOrderedElementList()[j].GetInfoElement()
						if ie.ElementId != f.ID || ie.EnterpriseId != f.PEN {
							return xplore.V("data-fields", "record %d field %d is %d/%d, template has %d/%d", ri, j, ie.EnterpriseId, ie.ElementId, f.PEN, f.ID)
						}
						j++
					}
				}
				return independent(set, got)
			}
		}
		return xplore.V("data-values", "delivered records %s; template in force defines %s", short(fmt.Sprint(got)), short(fmt.Sprint(exp.Records)))
	}
	return nil
}

func header(exp colmodel.Expect, msg *entities.Message) *xplore.Violation {
	if msg == nil {
		return xplore.V("nil-message", "nil message with nil error")
	}
	h := exp.Header
	if msg.GetObsDomainID() != h.Domain || msg.GetSequenceNum() != h.Seq || msg.GetExportTime() != h.ExportTime || msg.GetVersion() != 10 {
		return xplore.V("header", "delivered header domain=%d seq=%d time=%d version=%d, wire has domain=%d seq=%d time=%d", msg.GetObsDomainID(), msg.GetSequenceNum(), msg.GetExportTime(), msg.GetVersion(), h.Domain, h.Seq, h.ExportTime)
	}
	return nil
}

func describe(msg *entities.Message) string {
	if msg == nil || msg.GetSet() == nil {
		return "<nil>"
	}
	return fmt.Sprintf("setType=%d records=%v", msg.GetSet().GetSetType(), implRecords(msg.GetSet()))
}

// ImplCanon renders the collector's template table in colmodel.Store.Canon notation, plus the list
// of domain keys present in the outer map (to observe pruning of empty domains).
func ImplCanon(tpls []collector.VerifTemplate, domains []uint32) (string, []uint32) {
	var sb strings.Builder
	for _, t := range tpls {
		fmt.Fprintf(&sb, "[%d/%d:", t.Domain, t.ID)
		for _, ie := range t.IEs {
			fmt.Fprintf(&sb, " %d.%d/%d/t%d/%q", ie.EnterpriseId, ie.ElementId, ie.Len, ie.DataType, ie.Name)
		}
		sb.WriteString("]")
	}
	return sb.String(), domains
}
