package main

import (
	"bufio"
	"encoding/hex"
	"encoding/json"
	"fmt"
	"os"
	"os/exec"
	"runtime"
	"sort"
	"strconv"
	"sync"
	"sync/atomic"
	"time"

	"github.com/vmware/go-ipfix/pkg/collector"
	"github.com/vmware/go-ipfix/pkg/entities"

	"verifharness/colcheck"
	"verifharness/colmodel"
	"verifharness/common"
	"verifharness/refcodec"
	"verifharness/xplore"
)

func init() {
	checks["C03"] = runC03
	checks["C03worker"] = runC03Worker
}

// ---------- template states ----------

type c03state struct {
	name   string
	tmpls  []refcodec.Template // installed in domain 1
	strict bool                // state is installable in strict mode
}

func c03States() []c03state {
	fs := func(f ...refcodec.FieldSpec) []refcodec.FieldSpec { return f }
	everyType := fs(
		refcodec.FieldSpec{ID: 4, Len: 1},        // u8 protocolIdentifier
		refcodec.FieldSpec{ID: 7, Len: 2},        // u16 sourceTransportPort
		refcodec.FieldSpec{ID: 10, Len: 4},       // u32 ingressInterface
		refcodec.FieldSpec{ID: 1, Len: 8},        // u64 octetDeltaCount
		refcodec.FieldSpec{ID: 8, Len: 4},        // ipv4
		refcodec.FieldSpec{ID: 27, Len: 16},      // ipv6
		refcodec.FieldSpec{ID: 56, Len: 6},       // mac sourceMacAddress
		refcodec.FieldSpec{ID: 82, Len: 65535},   // string interfaceName
		refcodec.FieldSpec{ID: 150, Len: 4},      // dateTimeSeconds flowStartSeconds
		refcodec.FieldSpec{ID: 152, Len: 8},      // dateTimeMilliseconds flowStartMilliseconds
		refcodec.FieldSpec{ID: 276, Len: 1},      // boolean dataRecordsReliability
		refcodec.FieldSpec{ID: 320, Len: 8},      // float64 absoluteError
		refcodec.FieldSpec{ID: 434, PEN: 0, Len: 4}, // signed32 mibObjectValueInteger
		refcodec.FieldSpec{ID: 313, Len: 65535},  // octetArray ipHeaderPacketSection (variable)
		refcodec.FieldSpec{ID: 101, PEN: 56506, Len: 65535}, // antrea string sourcePodName
		refcodec.FieldSpec{ID: 1, PEN: 29305, Len: 8},       // reverse octetDeltaCount
	)
	return []c03state{
		{"none", nil, true},
		{"fixed", []refcodec.Template{{ID: 256, Fields: fs(refcodec.FieldSpec{ID: 4, Len: 1}, refcodec.FieldSpec{ID: 7, Len: 2}, refcodec.FieldSpec{ID: 10, Len: 4})}}, true},
		{"var", []refcodec.Template{{ID: 256, Fields: fs(refcodec.FieldSpec{ID: 82, Len: 65535}, refcodec.FieldSpec{ID: 8, Len: 4})}}, true},
		{"varvar", []refcodec.Template{{ID: 256, Fields: fs(refcodec.FieldSpec{ID: 7, Len: 2}, refcodec.FieldSpec{ID: 82, Len: 65535}, refcodec.FieldSpec{ID: 313, Len: 65535})}}, true},
		{"everytype", []refcodec.Template{{ID: 256, Fields: everyType}}, true},
		{"zerofield", []refcodec.Template{{ID: 256, Fields: nil}}, true},
		{"zerolen-unknown", []refcodec.Template{{ID: 256, Fields: fs(refcodec.FieldSpec{ID: 999, Len: 0}, refcodec.FieldSpec{ID: 77, PEN: 4242, Len: 0})}}, false},
		{"unknown-mix", []refcodec.Template{{ID: 256, Fields: fs(refcodec.FieldSpec{ID: 7, Len: 2}, refcodec.FieldSpec{ID: 999, Len: 3}, refcodec.FieldSpec{ID: 77, PEN: 4242, Len: 65535}, refcodec.FieldSpec{ID: 4, Len: 1})}}, false},
		// redefinitions: the same id re-announced with a different layout (shorter / longer / degenerate)
		{"redef-shorter", []refcodec.Template{
			{ID: 256, Fields: fs(refcodec.FieldSpec{ID: 7, Len: 2}, refcodec.FieldSpec{ID: 4, Len: 1}, refcodec.FieldSpec{ID: 10, Len: 4})},
			{ID: 256, Fields: fs(refcodec.FieldSpec{ID: 4, Len: 1})}}, true},
		{"redef-longer", []refcodec.Template{
			{ID: 256, Fields: fs(refcodec.FieldSpec{ID: 4, Len: 1})},
			{ID: 256, Fields: fs(refcodec.FieldSpec{ID: 7, Len: 2}, refcodec.FieldSpec{ID: 10, Len: 4}, refcodec.FieldSpec{ID: 1, Len: 8})}}, true},
		{"redef-var", []refcodec.Template{
			{ID: 256, Fields: fs(refcodec.FieldSpec{ID: 7, Len: 2}, refcodec.FieldSpec{ID: 10, Len: 4})},
			{ID: 256, Fields: fs(refcodec.FieldSpec{ID: 82, Len: 65535}, refcodec.FieldSpec{ID: 4, Len: 1})}}, true},
		{"redef-zerolen", []refcodec.Template{
			{ID: 256, Fields: fs(refcodec.FieldSpec{ID: 7, Len: 2})},
			{ID: 256, Fields: fs(refcodec.FieldSpec{ID: 999, Len: 0})}}, false},
		// unknown elements in last position (fixed after a variable field; variable)
		{"unknown-last-fixed", []refcodec.Template{{ID: 256, Fields: fs(refcodec.FieldSpec{ID: 7, Len: 2}, refcodec.FieldSpec{ID: 82, Len: 65535}, refcodec.FieldSpec{ID: 999, Len: 3})}}, false},
		{"unknown-last-var", []refcodec.Template{{ID: 256, Fields: fs(refcodec.FieldSpec{ID: 4, Len: 1}, refcodec.FieldSpec{ID: 77, PEN: 4242, Len: 65535})}}, false},
		{"two", []refcodec.Template{
			{ID: 256, Fields: fs(refcodec.FieldSpec{ID: 7, Len: 2}, refcodec.FieldSpec{ID: 4, Len: 1})},
			{ID: 257, Fields: fs(refcodec.FieldSpec{ID: 1, Len: 8})}}, true},
	}
}

// field value of width w for record r, field f: deterministic, boolean-safe patterns irrelevant here
func c03val(w, r, f int) []byte {
	b := make([]byte, w)
	for i := range b {
		b[i] = byte(0x10*(r+1) + f + i)
	}
	return b
}

// corpus of valid messages for a state
func c03Corpus(st c03state) [][]byte {
	h := refcodec.Header{ExportTime: 0x5f000001, Seq: 7, Domain: 1}
	var out [][]byte
	if len(st.tmpls) == 0 {
		// valid template messages (so that template decoding itself is mutated)
		out = append(out, refcodec.TemplateMsg(h, refcodec.Template{ID: 256, Fields: []refcodec.FieldSpec{{ID: 4, Len: 1}, {ID: 82, Len: 65535}, {ID: 101, PEN: 56506, Len: 65535}, {ID: 1, PEN: 29305, Len: 8}}}))
		out = append(out, refcodec.TemplateMsg(h, refcodec.Template{ID: 300, Fields: nil}))
		return out
	}
	for ti, t := range st.tmpls {
		if ti == 0 {
			out = append(out, refcodec.TemplateMsg(h, t)) // refresh of the installed template
		}
		varLens := [][]int{{0}, {1}, {5}}
		for nrec := 0; nrec <= 3; nrec++ {
			var recs [][][]byte
			for r := 0; r < nrec; r++ {
				var vals [][]byte
				for f, fsx := range t.Fields {
					w := int(fsx.Len)
					if fsx.Len == refcodec.VarLen {
						w = varLens[(r+f)%3][0]
					}
					vals = append(vals, c03val(w, r, f))
				}
				recs = append(recs, vals)
			}
			m := refcodec.DataMsg(h, t, recs)
			out = append(out, m)
			// padded variants: 1..min-1 zero bytes (only when at least one record and min>1)
			if nrec == 1 {
				min := refcodec.MinRecordLen(t.Fields)
				for p := 1; p < min && p <= 3; p++ {
					pm := append(append([]byte{}, m...), make([]byte, p)...)
					pm[2], pm[3] = byte(len(pm)>>8), byte(len(pm))
					pm[18], pm[19] = byte((len(pm)-16)>>8), byte(len(pm)-16)
					out = append(out, pm)
				}
			}
		}
		// boundary lengths for the first variable field
		for f, fsx := range t.Fields {
			if fsx.Len != refcodec.VarLen {
				continue
			}
			for _, L := range []int{254, 255, 256} {
				var vals [][]byte
				for g, gs := range t.Fields {
					w := int(gs.Len)
					if gs.Len == refcodec.VarLen {
						w = 2
						if g == f {
							w = L
						}
					}
					vals = append(vals, c03val(w, 0, g))
				}
				out = append(out, refcodec.DataMsg(h, t, [][][]byte{vals}))
			}
			break
		}
	}
	return out
}

// ---------- work units ----------

type c03unit struct {
	State  int
	Mode   colmodel.Mode
	Proto  string
	Corpus int    // index into corpus, -1 for the state-independent small-string / grammar units
	Class  string // trunc | ext | sub1 | sub2 | fields | tiny | grammar
}

var c03alpha6 = []byte{0x00, 0x01, 0x7f, 0x80, 0xfe, 0xff}

func c03Units(tier string) []c03unit {
	var us []c03unit
	states := c03States()
	for si, st := range states {
		for _, mode := range []colmodel.Mode{colmodel.Strict, colmodel.Keep, colmodel.Drop} {
			if mode == colmodel.Strict && !st.strict {
				continue
			}
			for _, proto := range []string{"tcp", "udp"} {
				if proto == "udp" && tier != "thorough" && mode != colmodel.Keep {
					continue
				}
				n := len(c03Corpus(st))
				for ci := 0; ci < n; ci++ {
					classes := []string{"trunc", "ext", "sub1", "fields"}
					if tier == "thorough" {
						classes = append(classes, "sub2")
					}
					for _, cl := range classes {
						us = append(us, c03unit{si, mode, proto, ci, cl})
					}
				}
				us = append(us, c03unit{si, mode, proto, -1, "tiny"})
				us = append(us, c03unit{si, mode, proto, -1, "grammar"})
			}
		}
	}
	return us
}

var c03fieldVals = []int{0, 1, 2, 3, 4, 15, 16, 19, 20, 255, 256, 257, 65534, 65535}

// c03Gen enumerates every input of a unit.
func c03Gen(u c03unit, tier string, emit func([]byte)) {
	st := c03States()[u.State]
	switch u.Class {
	case "tiny":
		emit([]byte{})
		for a := 0; a < 256; a++ {
			emit([]byte{byte(a)})
		}
		for a := 0; a < 256; a++ {
			for b := 0; b < 256; b++ {
				emit([]byte{byte(a), byte(b)})
			}
		}
		return
	case "grammar":
		// 20-byte prefix from small per-field alphabets, followed by every body of length <= 3 over 4 bytes
		vers := []uint16{0, 9, 10, 11}
		lens := []uint16{0, 16, 20, 24, 65535}
		sids := []uint16{0, 1, 2, 3, 255, 256, 257, 65535}
		slens := []uint16{0, 3, 4, 5, 8, 65535}
		doms := []uint32{0, 1}
		bodyAlpha := []byte{0x00, 0x01, 0x04, 0xff}
		var bodies [][]byte
		bodies = append(bodies, nil)
		for L := 1; L <= 3; L++ {
			n := 1
			for i := 0; i < L; i++ {
				n *= 4
			}
			for x := 0; x < n; x++ {
				b := make([]byte, L)
				y := x
				for i := 0; i < L; i++ {
					b[i] = bodyAlpha[y%4]
					y /= 4
				}
				bodies = append(bodies, b)
			}
		}
		if tier == "thorough" {
			// plus bodies of length 4..8 whose bytes are from {00,ff} (template/record headers)
			for L := 4; L <= 8; L++ {
				for x := 0; x < 1<<L; x++ {
					b := make([]byte, L)
					for i := 0; i < L; i++ {
						if x>>i&1 == 1 {
							b[i] = 0xff
						}
					}
					bodies = append(bodies, b)
				}
			}
		}
		for _, v := range vers {
			for _, l := range lens {
				for _, sid := range sids {
					for _, sl := range slens {
						for _, d := range doms {
							hd := refcodec.Header{Version: v, Length: l, ExportTime: 1, Seq: 2, Domain: d}.Bytes()
							hd = append(hd, byte(sid>>8), byte(sid), byte(sl>>8), byte(sl))
							for _, b := range bodies {
								emit(append(append([]byte{}, hd...), b...))
							}
						}
					}
				}
			}
		}
		return
	}
	m := c03Corpus(st)[u.Corpus]
	L := len(m)
	switch u.Class {
	case "trunc":
		for n := 0; n <= L; n++ {
			emit(append([]byte{}, m[:n]...))
		}
	case "ext":
		for _, a := range c03alpha6 {
			emit(append(append([]byte{}, m...), a))
			for _, b := range c03alpha6 {
				emit(append(append([]byte{}, m...), a, b))
			}
		}
	case "sub1":
		for i := 0; i < L; i++ {
			for v := 0; v < 256; v++ {
				if byte(v) == m[i] {
					continue
				}
				x := append([]byte{}, m...)
				x[i] = byte(v)
				emit(x)
			}
		}
	case "sub2":
		if L > 120 { // long boundary messages: restrict pairs to the first 40 bytes x all
			for i := 0; i < 40; i++ {
				for j := i + 1; j < L; j++ {
					c03pair(m, i, j, emit)
				}
			}
			return
		}
		for i := 0; i < L; i++ {
			for j := i + 1; j < L; j++ {
				c03pair(m, i, j, emit)
			}
		}
	case "fields":
		// 16-bit fields: header length (2), set id (16), set length (18), and for bodies >= 4 bytes the first two 16-bit words of the body
		offs := []int{2, 16, 18}
		if L >= 24 {
			offs = append(offs, 20, 22)
		}
		for _, off := range offs {
			cur := int(m[off])<<8 | int(m[off+1])
			vals := append(append([]int{}, c03fieldVals...), cur-1, cur+1, L, L-16, L+1, L-1)
			for _, v := range vals {
				if v < 0 || v > 65535 {
					continue
				}
				x := append([]byte{}, m...)
				x[off], x[off+1] = byte(v>>8), byte(v)
				emit(x)
				// combined with a second field
				for _, off2 := range offs {
					if off2 <= off {
						continue
					}
					for _, v2 := range c03fieldVals {
						y := append([]byte{}, x...)
						y[off2], y[off2+1] = byte(v2>>8), byte(v2)
						emit(y)
					}
				}
			}
		}
	}
}

func c03pair(m []byte, i, j int, emit func([]byte)) {
	for _, a := range c03alpha6 {
		if a == m[i] {
			continue
		}
		for _, b := range c03alpha6 {
			if b == m[j] {
				continue
			}
			x := append([]byte{}, m...)
			x[i], x[j] = a, b
			emit(x)
		}
	}
}

// ---------- worker ----------

type c03inst struct {
	cp    *collector.CollectingProcess
	ch    chan *entities.Message
	model *colmodel.Store
	canon string
}

func c03Fresh(u c03unit) *c03inst {
	st := c03States()[u.State]
	cp, err := collector.VerifInitCollectingProcess(collector.CollectorInput{
		Address: "127.0.0.1:0", Protocol: u.Proto, MaxBufferSize: 65535, DecodingMode: colcheck.ModeOf(u.Mode),
	}, nullClock{})
	if err != nil {
		panic(err)
	}
	in := &c03inst{cp: cp, ch: make(chan *entities.Message, 4), model: colmodel.New(u.Mode)}
	cp.VerifSetMsgChan(in.ch)
	h := refcodec.Header{ExportTime: 1, Seq: 0, Domain: 1}
	for _, t := range st.tmpls {
		m := refcodec.TemplateMsg(h, t)
		exp := in.model.Message(m)
		_, err := cp.VerifDecodePacket(m, "10.0.0.1:4739")
		if (err != nil) != (exp.Kind == colmodel.MustErr) {
			fmt.Fprintf(os.Stderr, "C03: state %s cannot be installed consistently in mode %s: impl err=%v model=%v\n", st.name, u.Mode, err, exp.Why)
			os.Exit(2)
		}
		select {
		case <-in.ch:
		default:
		}
	}
	in.canon = in.model.Canon()
	return in
}

type c03result struct {
	Unit      int    `json:"unit"`
	Inputs    int64  `json:"inputs"`
	Accepted  int64  `json:"accepted"`
	DataOK    int64  `json:"data_ok"`
	TmplOK    int64  `json:"tmpl_ok"`
	Rejected  int64  `json:"rejected"`
	Kind      string `json:"kind,omitempty"` // violation
	Detail    string `json:"detail,omitempty"`
	Input     string `json:"input,omitempty"`
	Done      bool   `json:"done"`
	Sample    string `json:"sample,omitempty"`
	Outcomes  map[string]int64 `json:"outcomes,omitempty"`
}

var (
	c03curUnit  int64 = -1
	c03curSeq   int64
	c03curInput atomic.Value
)

// one decode, judged. returns violation or nil
func c03One(u c03unit, in *c03inst, input []byte) (v *xplore.Violation, accepted bool, isData bool, dirty bool) {
	model := in.model
	exp := model.Message(input)
	var msg *entities.Message
	var err error
	func() {
		defer func() {
			if r := recover(); r != nil {
				v = xplore.V("panic", "decoding panicked: %v", r)
			}
		}()
		msg, err = in.cp.VerifDecodePacket(input, "10.0.0.1:4739")
	}()
	select {
	case <-in.ch:
	default:
	}
	if v != nil {
		return v, false, false, true
	}
	if v = colcheck.Judge(u.Mode, exp, msg, err); v != nil {
		return v, false, false, true
	}
	mc := model.Canon()
	dirty = mc != in.canon
	ic, _ := colcheck.ImplCanon(in.cp.VerifTemplates())
	if ic != mc && ic != model.CanonReading(true) {
		return xplore.V("store-mismatch", "template table after the message is %s, model has %s", ic, mc), false, false, true
	}
	return nil, err == nil, err == nil && exp.Kind == colmodel.Data, dirty
}

func runC03Worker(tier, _ string) int {
	// args: plain C03worker <tier> <shard> <nshards> <skipThroughUnit>
	shard, _ := strconv.Atoi(os.Args[3])
	nsh, _ := strconv.Atoi(os.Args[4])
	skip, _ := strconv.Atoi(os.Args[5])
	units := c03Units(tier)
	out := bufio.NewWriter(os.Stdout)
	enc := json.NewEncoder(out)
	// watchdog
	go func() {
		var lastSeq int64 = -1
		var since time.Time
		var ms runtime.MemStats
		for {
			time.Sleep(200 * time.Millisecond)
			seq := atomic.LoadInt64(&c03curSeq)
			if seq != lastSeq {
				lastSeq, since = seq, time.Now()
			}
			runtime.ReadMemStats(&ms)
			hung := time.Since(since) > 10*time.Second
			if hung || ms.HeapAlloc > 3<<30 {
				kind := "hang"
				det := "decoding did not terminate within 10 s"
				if !hung {
					kind = "memory"
					det = fmt.Sprintf("decoding one message grew the heap to %d MiB", ms.HeapAlloc>>20)
				}
				inp, _ := c03curInput.Load().([]byte)
				// do not touch the buffered writer of the stuck goroutine: write directly
				b, _ := json.Marshal(c03result{Unit: int(atomic.LoadInt64(&c03curUnit)), Kind: kind, Detail: det, Input: hex.EncodeToString(inp)})
				os.Stderr.Write(append(append([]byte("C03DEATH "), b...), '\n'))
				os.Exit(3)
			}
		}
	}()
	for ui, u := range units {
		if ui%nsh != shard || ui <= skip {
			continue
		}
		atomic.StoreInt64(&c03curUnit, int64(ui))
		res := c03result{Unit: ui, Outcomes: map[string]int64{}}
		in := c03Fresh(u)
		stop := false
		c03Gen(u, tier, func(input []byte) {
			if stop {
				return
			}
			c03curInput.Store(input)
			atomic.AddInt64(&c03curSeq, 1)
			res.Inputs++
			v, acc, isData, dirty := c03One(u, in, input)
			if v != nil {
				res.Kind, res.Detail, res.Input = v.Kind, v.Detail, hex.EncodeToString(input)
				stop = true
				return
			}
			if acc {
				res.Accepted++
				if isData {
					res.DataOK++
				} else {
					res.TmplOK++
				}
				if res.Sample == "" && res.Accepted > 3 {
					res.Sample = hex.EncodeToString(input)
				}
			} else {
				res.Rejected++
			}
			if dirty {
				in = c03Fresh(u)
			}
		})
		res.Done = !stop
		out.Flush()
		enc.Encode(res)
		out.Flush()
	}
	return 0
}

// ---------- parent ----------

func runC03(tier, replay string) int {
	rep := common.NewReporter("C03")
	units := c03Units(tier)
	states := c03States()
	if tier == "replay" {
		r, err := common.ReadReplay(replay)
		if err != nil {
			fmt.Println(err)
			return 2
		}
		b, _ := json.Marshal(r.Trace)
		var tr struct {
			Unit  c03unit
			Input string
		}
		json.Unmarshal(b, &tr)
		input, _ := hex.DecodeString(tr.Input)
		fmt.Printf("replay: state=%s mode=%s proto=%s input=%x\n", states[tr.Unit.State].name, tr.Unit.Mode, tr.Unit.Proto, input)
		done := make(chan *xplore.Violation, 1)
		go func() {
			in := c03Fresh(tr.Unit)
			v, _, _, _ := c03One(tr.Unit, in, input)
			done <- v
		}()
		select {
		case v := <-done:
			if v != nil {
				fmt.Printf("replay: %s\nVIOLATION property=C03 replay=%s\n", v.Error(), replay)
				return 1
			}
			fmt.Println("replay: no violation")
			return 0
		case <-time.After(10 * time.Second):
			fmt.Printf("replay: decoding did not terminate within 10 s\nVIOLATION property=C03 replay=%s\n", replay)
			return 1
		}
	}
	nsh := runtime.NumCPU()
	self, _ := os.Executable()
	var mu sync.Mutex
	var inputs, accepted, dataOK, tmplOK, rejected int64
	var samples []interface{}
	unitsDone := 0
	handle := func(res c03result) {
		mu.Lock()
		defer mu.Unlock()
		inputs += res.Inputs
		accepted += res.Accepted
		dataOK += res.DataOK
		tmplOK += res.TmplOK
		rejected += res.Rejected
		if res.Done {
			unitsDone++
		}
		u := units[res.Unit]
		if res.Sample != "" && len(samples) < 6 && res.Unit%7 == 0 {
			samples = append(samples, map[string]interface{}{"state": states[u.State].name, "mode": u.Mode.String(), "proto": u.Proto, "class": u.Class, "accepted_input": res.Sample})
		}
		if res.Kind != "" {
			det := fmt.Sprintf("state=%s mode=%s: %s", states[u.State].name, u.Mode, res.Detail)
			rep.Report(fmt.Sprintf("%s/%s/%s/%s", states[u.State].name, u.Mode, u.Proto, u.Class), res.Kind, det,
				map[string]interface{}{"unit": u, "input": res.Input}, nil)
		}
	}
	var wg sync.WaitGroup
	infra := int32(0)
	for sh := 0; sh < nsh; sh++ {
		wg.Add(1)
		go func(sh int) {
			defer wg.Done()
			skip := -1
			for {
				cmd := exec.Command("/bin/bash", "-c", fmt.Sprintf("ulimit -v 8000000; exec %q C03worker %s %d %d %d", self, tier, sh, nsh, skip))
				stdout, _ := cmd.StdoutPipe()
				stderr, _ := cmd.StderrPipe()
				if err := cmd.Start(); err != nil {
					fmt.Fprintln(os.Stderr, "C03: cannot start worker:", err)
					atomic.StoreInt32(&infra, 1)
					return
				}
				var death *c03result
				var ewg sync.WaitGroup
				ewg.Add(1)
				go func() {
					defer ewg.Done()
					sc := bufio.NewScanner(stderr)
					sc.Buffer(make([]byte, 1<<20), 1<<24)
					for sc.Scan() {
						line := sc.Text()
						if len(line) > 9 && line[:9] == "C03DEATH " {
							var r c03result
							if json.Unmarshal([]byte(line[9:]), &r) == nil {
								death = &r
							}
						} else {
							fmt.Fprintln(os.Stderr, line)
						}
					}
				}()
				sc := bufio.NewScanner(stdout)
				sc.Buffer(make([]byte, 1<<20), 1<<24)
				last := skip
				for sc.Scan() {
					var r c03result
					if json.Unmarshal(sc.Bytes(), &r) == nil {
						handle(r)
						last = r.Unit
					}
				}
				ewg.Wait()
				err := cmd.Wait()
				if err == nil {
					return
				}
				if death != nil {
					handle(*death)
					skip = death.Unit
					continue
				}
				// died without a watchdog report (e.g. address-space limit): attribute to the unit after `last`
				next := -1
				for ui := last + 1; ui < len(units); ui++ {
					if ui%nsh == sh {
						next = ui
						break
					}
				}
				if next < 0 {
					atomic.StoreInt32(&infra, 1)
					fmt.Fprintf(os.Stderr, "C03: worker %d died (%v) with no unit to attribute\n", sh, err)
					return
				}
				handle(c03result{Unit: next, Kind: "crash", Detail: fmt.Sprintf("worker process died while decoding inputs of this unit: %v", err)})
				skip = next
			}
		}(sh)
	}
	wg.Wait()
	if infra != 0 {
		return 2
	}
	ev := &common.Evidence{PropertyID: "C03", Tier: tier}
	if len(samples) == 0 {
		samples = append(samples, "no accepted input sampled")
	}
	var cfgs []string
	seen := map[string]bool{}
	for _, u := range units {
		k := fmt.Sprintf("%s/%s/%s", states[u.State].name, u.Mode, u.Proto)
		if !seen[k] {
			seen[k] = true
			cfgs = append(cfgs, k)
		}
	}
	sort.Strings(cfgs)
	ev.Coverage = common.Coverage{
		"states": len(cfgs), "transitions": inputs, "traces_validated_against_impl": inputs,
		"evaluations": inputs, "distinct_nontrivial": accepted,
		"rule": "every input of every unit = (template state x decoding mode x transport mode) x (valid corpus message) x mutation class {all truncations; all extensions by <=2 bytes over 6 values; all single-byte substitutions; all 16-bit framing-field values from a 14+6 value set, singly and in pairs; thorough: all double substitutions over 6 values} plus all byte strings of length <=2 and a grammar of 20-byte prefixes x short bodies; each decoded on the real collector from the template state and judged against refcodec/tmplstore. distinct_nontrivial = inputs the collector accepted (delivered a message that had to match the reference parse); inputs are distinct by construction within a unit",
		"samples": samples, "exhaustive": unitsDone == len(units),
		"units": len(units), "units_completed": unitsDone, "accepted_data": dataOK, "accepted_template": tmplOK, "rejected": rejected,
		"configs": cfgs,
	}
	ev.Assumptions = []string{"known elements are decoded at the registry's width", "hang = one decode not finishing within 10 s (normal decode is microseconds); memory = heap above 3 GiB during one decode", "either reading of a set-length field that disagrees with the bytes received is accepted"}
	ev.WallS = common.Since(rep.Start)
	ev.Violations = rep.Violations()
	common.WriteEvidence(ev)
	fmt.Printf("C03 %s: units=%d/%d inputs=%d accepted=%d (data %d, template %d) rejected=%d violations=%d\n", tier, unitsDone, len(units), inputs, accepted, dataOK, tmplOK, rejected, rep.Violations())
	return rep.Finish()
}
