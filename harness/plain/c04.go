package main

import (
	"encoding/json"
	"fmt"
	"runtime"
	"strings"
	"time"

	"github.com/vmware/go-ipfix/pkg/collector"
	"github.com/vmware/go-ipfix/pkg/entities"

	"verifharness/colcheck"
	"verifharness/colmodel"
	"verifharness/common"
	"verifharness/refcodec"
	"verifharness/xplore"
)

func init() { checks["C04"] = runC04 }

// nullClock never fires; C04 is about scoping/replacement/invalidation, not lifetime (that is C10).
type nullClock struct{}
type nullTimer struct{}

func (nullTimer) Stop() bool                                           { return true }
func (nullTimer) Reset(time.Duration) bool                             { return true }
func (nullClock) Now() time.Time                                       { return time.Unix(1_700_000_000, 0) }
func (nullClock) AfterFunc(time.Duration, func()) collector.VerifTimer { return nullTimer{} }

type c04op struct {
	name string
	msg  []byte
	// probe: a template set whose meaning inside its own observation domain the statements leave open (RFC
	// 7011 reads a field count of 0 as a withdrawal, the pinned library stores an empty template). Whatever
	// it does there, it must leave every other observation domain exactly as it was; for its own domain the
	// model adopts what the implementation did.
	probe bool
	dom   uint32
}

func c04Alphabet() []c04op {
	tA := []refcodec.FieldSpec{{ID: 7, Len: 2}, {ID: 11, Len: 2}, {ID: 4, Len: 1}}                   // srcPort u16, dstPort u16, proto u8 = 5 bytes
	tAx := []refcodec.FieldSpec{{ID: 7, Len: 2}, {ID: 11, Len: 2}, {ID: 4, Len: 1}, {ID: 5, Len: 1}} // A extended by one trailing field = 6 bytes
	tB := []refcodec.FieldSpec{{ID: 4, Len: 1}, {ID: 5, Len: 1}, {ID: 2, Len: 8}}                    // proto u8, tos u8, packetDeltaCount u64 = 10 bytes
	tC := []refcodec.FieldSpec{{ID: 82, Len: 65535}, {ID: 8, Len: 4}}                                // interfaceName string, sourceIPv4Address
	// bodies: 10 bytes parse as two A records or one B record, with different values
	// 30 bytes: six A records, five Ax records or three B records, with different values each way
	bodyA := []byte{0x12, 0x34, 0x00, 0x50, 0x06, 0xab, 0xcd, 0x01, 0xbb, 0x11, 1, 2, 3, 4, 5, 6, 7, 8, 9, 10, 11, 12, 13, 14, 15, 16, 17, 18, 19, 20}
	bodyB := []byte{0x11, 0x20, 0, 0, 0, 0, 0, 0, 0x30, 0x39}
	bodyC := []byte{0x03, 'e', 't', 'h', 10, 0, 0, 1} // valid under C only by accident of lengths; under A: 5 + 3 padding
	var ops []c04op
	for _, d := range []uint32{65536, 0} { // 0 is an ordinary observation domain id; the two differ only above the low 16 bits
		for _, id := range []uint16{256, 257} {
			h := refcodec.Header{ExportTime: 1000 + d, Seq: uint32(id), Domain: d}
			n := func(k string) string { return fmt.Sprintf("%s(d%d,%d)", k, d, id) }
			ops = append(ops,
				c04op{name: n("T_A"), msg: refcodec.TemplateMsg(h, refcodec.Template{ID: id, Fields: tA})},
				c04op{name: n("T_Ax"), msg: refcodec.TemplateMsg(h, refcodec.Template{ID: id, Fields: tAx})},
				c04op{name: n("T_B"), msg: refcodec.TemplateMsg(h, refcodec.Template{ID: id, Fields: tB})},
				// A's ids and widths under the reverse-information-element enterprise number
				c04op{name: n("T_Arev"), msg: refcodec.TemplateMsg(h, refcodec.Template{ID: id, Fields: []refcodec.FieldSpec{{ID: 7, PEN: 29305, Len: 2}, {ID: 11, PEN: 29305, Len: 2}, {ID: 4, PEN: 29305, Len: 1}}})},
				// a known variable-length element announced with a fixed width of 4 (the library decodes at the registry width)
				c04op{name: n("T_announced"), msg: refcodec.TemplateMsg(h, refcodec.Template{ID: id, Fields: []refcodec.FieldSpec{{ID: 82, Len: 4}, {ID: 4, Len: 1}}})},
				c04op{name: n("T_C"), msg: refcodec.TemplateMsg(h, refcodec.Template{ID: id, Fields: tC})},
				// unknown IANA element 999: refused in strict mode (a valid template in lenient modes)
				c04op{name: n("Bad_unknown"), msg: refcodec.TemplateMsg(h, refcodec.Template{ID: id, Fields: []refcodec.FieldSpec{{ID: 7, Len: 2}, {ID: 999, Len: 3}}})},
				// the same unknown element announced with another width (lenient modes: a different valid template)
				c04op{name: n("Bad_unknown5"), msg: refcodec.TemplateMsg(h, refcodec.Template{ID: id, Fields: []refcodec.FieldSpec{{ID: 7, Len: 2}, {ID: 999, Len: 5}}})},
				// field count 3, only two specifiers present
				c04op{name: n("Bad_trunc"), msg: func() []byte {
					b := refcodec.TemplateBody(refcodec.Template{ID: id, Fields: tA})
					return refcodec.Msg(h, 2, b[:len(b)-4])
				}()},
				// flowStartNanoseconds (156): a type the library cannot decode
				c04op{name: n("Bad_type"), msg: refcodec.TemplateMsg(h, refcodec.Template{ID: id, Fields: []refcodec.FieldSpec{{ID: 7, Len: 2}, {ID: 156, Len: 8}}})},
				// template record header unreadable: nothing can be invalidated
				c04op{name: n("Bad_noid"), msg: refcodec.Msg(h, 2, []byte{0x01})},
				c04op{name: n("D_A"), msg: refcodec.Msg(h, id, bodyA)},
				c04op{name: n("D_B"), msg: refcodec.Msg(h, id, bodyB)},
				c04op{name: n("D_C"), msg: refcodec.Msg(h, id, bodyC)},
			)
		}
		hd := refcodec.Header{ExportTime: 1000 + d, Seq: 7, Domain: d}
		ops = append(ops,
			// template record (id 2, field count 0): RFC 7011 8.1 "all templates withdrawal"
			c04op{name: fmt.Sprintf("Withdraw_all?(d%d)", d), msg: refcodec.Msg(hd, 2, []byte{0, 2, 0, 0}), probe: true, dom: d})
		if d == 65536 {
			ops = append(ops,
				// template record (id 256, field count 0): withdrawal of one template
				c04op{name: fmt.Sprintf("Withdraw?(d%d,256)", d), msg: refcodec.Msg(hd, 2, []byte{1, 0, 0, 0}), probe: true, dom: d},
				// a known variable-length octetArray element announced with a fixed width of 4
				c04op{name: "T_announced_oct(d65536,256)", msg: refcodec.TemplateMsg(refcodec.Header{ExportTime: 1001, Seq: 256, Domain: 65536}, refcodec.Template{ID: 256, Fields: []refcodec.FieldSpec{{ID: 313, Len: 4}, {ID: 4, Len: 1}}})})
		}
	}
	return ops
}

// c04Deep is the reduced alphabet of the deep pass: one domain, two ids, two templates, one bad template and
// two bodies per id. State the collector might keep outside its template table (a cache, a "last used"
// pointer) is invisible to the de-duplicated search of pass (b); only plain history enumeration reaches it.
// c04Probes: the small alphabet in which the probe operations live (kept out of the main alphabet: the empty
// templates the pinned library stores for them would multiply its state graph for nothing).
func c04Probes(ops []c04op) []c04op {
	var out []c04op
	for _, o := range ops {
		for _, k := range []string{"T_A(d0,256)", "T_A(d65536,256)", "T_B(d65536,257)", "D_A(d0,256)", "D_A(d65536,256)", "D_B(d65536,257)", "Bad_trunc(d65536,256)", "Withdraw"} {
			if strings.HasPrefix(o.name, k) {
				out = append(out, o)
			}
		}
	}
	return out
}

func c04NoProbes(ops []c04op) []c04op {
	var out []c04op
	for _, o := range ops {
		if !o.probe {
			out = append(out, o)
		}
	}
	return out
}

func c04Deep(ops []c04op) []c04op {
	var out []c04op
	for _, o := range ops {
		for _, k := range []string{"T_A(d65536,", "T_B(d65536,", "Bad_trunc(d65536,", "D_A(d65536,", "D_B(d65536,"} {
			if strings.HasPrefix(o.name, k) {
				out = append(out, o)
			}
		}
	}
	return out
}

// c04guard turns a decoder that hangs or eats memory on some history into a violation naming that history.
var c04guard *common.Guard

type c04where struct {
	Config string
	Hist   []int
	Ops    []string
}

type c04sys struct {
	name  string
	hist  []int
	names []string
	slot  *common.GuardSlot
	mode  colmodel.Mode
	cp    *collector.CollectingProcess
	ch    chan *entities.Message
	model *colmodel.Store
	ops   []c04op
}

func newC04(mode colmodel.Mode, proto string, ops []c04op) *c04sys {
	cp, err := collector.VerifInitCollectingProcess(collector.CollectorInput{
		Address: "127.0.0.1:0", Protocol: proto, MaxBufferSize: 65535, TemplateTTL: 0, DecodingMode: colcheck.ModeOf(mode),
	}, nullClock{})
	if err != nil {
		panic(err)
	}
	ch := make(chan *entities.Message, 4)
	cp.VerifSetMsgChan(ch)
	return &c04sys{name: fmt.Sprintf("%s/%s", mode, proto), mode: mode, cp: cp, ch: ch, model: colmodel.New(mode), ops: ops}
}

func (s *c04sys) Apply(op int) (v *xplore.Violation) {
	o := s.ops[op]
	if o.probe {
		return s.applyProbe(o)
	}
	if c04guard != nil {
		s.hist, s.names = append(s.hist, op), append(s.names, o.name)
		w := c04where{s.name, s.hist, s.names}
		if s.slot == nil {
			s.slot = c04guard.Enter(w)
		} else {
			s.slot.Update(w)
		}
		defer s.slot.Idle()
	}
	exp := s.model.Message(o.msg)
	var msg *entities.Message
	var err error
	func() {
		defer func() {
			if r := recover(); r != nil {
				v = xplore.V("panic", "decoding %s panicked: %v", o.name, r)
			}
		}()
		msg, err = s.cp.VerifDecodePacket(append([]byte{}, o.msg...), "10.0.0.1:4739")
	}()
	if v != nil {
		return v
	}
	// drain
	select {
	case m := <-s.ch:
		if err != nil || m != msg {
			return xplore.V("delivery", "%s: message on channel does not match return value (err=%v)", o.name, err)
		}
	default:
		if err == nil {
			return xplore.V("delivery", "%s: accepted but nothing delivered on the message channel", o.name)
		}
	}
	if v := colcheck.Judge(s.mode, exp, msg, err); v != nil {
		v.Detail = o.name + ": " + v.Detail
		return v
	}
	// store comparison
	ic, doms := colcheck.ImplCanon(s.cp.VerifTemplates())
	if mc := s.model.Canon(); ic != mc && ic != s.model.CanonReading(true) {
		return xplore.V("store-mismatch", "after %s the template table is %s, model has %s", o.name, ic, mc)
	}
	if fmt.Sprint(doms) != fmt.Sprint(s.model.Domains()) {
		return xplore.V("store-domains", "after %s the table holds domain keys %v, model has %v (empty domains must be pruned)", o.name, doms, s.model.Domains())
	}
	return nil
}

// applyProbe: see c04op.probe.
func (s *c04sys) applyProbe(o c04op) (v *xplore.Violation) {
	func() {
		defer func() {
			if r := recover(); r != nil {
				v = xplore.V("panic", "decoding %s panicked: %v", o.name, r)
			}
		}()
		s.cp.VerifDecodePacket(append([]byte{}, o.msg...), "10.0.0.1:4739")
	}()
	if v != nil {
		return v
	}
	select {
	case <-s.ch:
	default:
	}
	tpls, _ := s.cp.VerifTemplates()
	// other domains: table unchanged
	var other []collector.VerifTemplate
	for _, t := range tpls {
		if t.Domain != o.dom {
			other = append(other, t)
		}
	}
	ic, _ := colcheck.ImplCanon(other, nil)
	if mc, mw := s.model.CanonExcept(o.dom, false), s.model.CanonExcept(o.dom, true); ic != mc && ic != mw {
		return xplore.V("cross-domain", "%s (a template set in observation domain %d) changed the templates of other observation domains: table there is now %s, was %s", o.name, o.dom, ic, mc)
	}
	// own domain: adopt
	var own []colmodel.Held
	for _, t := range tpls {
		if t.Domain == o.dom {
			own = append(own, colmodel.Held{ID: t.ID, IEs: t.IEs})
		}
	}
	s.model.AdoptDomain(o.dom, own)
	return nil
}

func (s *c04sys) Canon() string {
	c, _ := colcheck.ImplCanon(s.cp.VerifTemplates())
	return c
}
func (s *c04sys) Close() {
	if s.slot != nil {
		s.slot.Leave()
	}
}

func runC04(tier, replay string) int {
	rep := common.NewReporter("C04")
	all := c04Alphabet()
	ops := c04NoProbes(all)
	probeOps := c04Probes(all)
	type cfgT struct {
		mode  colmodel.Mode
		proto string
	}
	cfgs := []cfgT{{colmodel.Strict, "tcp"}, {colmodel.Strict, "udp"}, {colmodel.Keep, "tcp"}, {colmodel.Drop, "udp"}}
	deepOps := c04Deep(ops)
	mkOps := func(c cfgT, ops []c04op, suffix string) *xplore.Config {
		return &xplore.Config{
			Name: fmt.Sprintf("%s/%s%s", c.mode, c.proto, suffix), NumOps: len(ops),
			OpName: func(i int) string { return ops[i].name },
			New: func() xplore.Sys {
				s := newC04(c.mode, c.proto, ops)
				s.name += suffix
				return s
			},
			Workers: runtime.NumCPU(),
			Known: func(v *xplore.Violation, h []int) (string, bool) {
				return rep.CheckKnown(v.Kind, v.Detail)
			},
			Interesting: func(cn string) bool { return len(cn) > 0 },
		}
	}
	mk := func(c cfgT) *xplore.Config { return mkOps(c, ops, "") }
	c04guard = common.ReportingGuard(rep, replay, func(what interface{}) (string, string, interface{}) {
		w := what.(c04where)
		return w.Config, fmt.Sprintf("history %v: decoding does not terminate promptly with bounded memory", w.Ops), map[string]interface{}{"hist": w.Hist, "ops": w.Ops}
	})
	if tier == "replay" {
		r, err := common.ReadReplay(replay)
		if err != nil {
			fmt.Println(err)
			return 2
		}
		var tr struct {
			Hist []int
		}
		b, _ := json.Marshal(r.Trace)
		json.Unmarshal(b, &tr)
		for _, c := range cfgs {
			if fmt.Sprintf("%s/%s", c.mode, c.proto) != strings.TrimSuffix(strings.TrimSuffix(r.Scenario, "/deep"), "/probes") {
				continue
			}
			x := mk(c)
			if strings.HasSuffix(r.Scenario, "/deep") {
				x = mkOps(c, deepOps, "/deep")
				ops = deepOps
			}
			if strings.HasSuffix(r.Scenario, "/probes") {
				x = mkOps(c, probeOps, "/probes")
				ops = probeOps
			}
			for i, op := range tr.Hist {
				fmt.Printf("  step %d: %s\n", i, ops[op].name)
			}
			step, v := x.Replay(tr.Hist)
			if v != nil {
				fmt.Printf("replay: violation at step %d: %s\n", step, v.Error())
				fmt.Printf("VIOLATION property=C04 replay=%s\n", replay)
				return 1
			}
			fmt.Println("replay: no violation")
			return 0
		}
		return 2
	}
	histDepth, stateDepth := 3, 12
	if tier == "thorough" {
		histDepth = 4
	}
	ev := &common.Evidence{PropertyID: "C04", Tier: tier}
	cov := common.Coverage{}
	var states, trans, traces, interesting int64
	var samples []interface{}
	exhaustive := true
	closedAll := true
	var perCfg []interface{}
	type runT struct {
		cfg    cfgT
		deep   bool
		probes bool
	}
	var runs []runT
	for _, c := range cfgs {
		runs = append(runs, runT{cfg: c})
	}
	runs = append(runs, runT{cfg: cfgs[0], deep: true}, runT{cfg: cfgs[3], deep: true})
	runs = append(runs, runT{cfg: cfgs[0], probes: true}, runT{cfg: cfgs[2], probes: true})
	deepDepth := 5
	if tier == "thorough" {
		deepDepth = 7
	}
	for _, r := range runs {
		c := r.cfg
		x := mk(c)
		x.HistDepth, x.StateDepth = histDepth, stateDepth
		if c.mode != colmodel.Strict && tier != "thorough" {
			x.HistDepth = 2
		}
		if tier == "thorough" && c.proto == "udp" {
			x.HistDepth = 3 // depth 4 (10 M histories per configuration) is kept for the two tcp configurations
		}
		if r.probes {
			x = mkOps(c, probeOps, "/probes")
			x.HistDepth, x.StateDepth = 4, 0
			if tier == "thorough" {
				x.HistDepth = 5
			}
		}
		if r.deep {
			x = mkOps(c, deepOps, "/deep")
			x.HistDepth, x.StateDepth = deepDepth, 0
			if c.mode != colmodel.Strict && tier == "thorough" {
				x.HistDepth = deepDepth - 1
			}
		}
		res := xplore.Run(x)
		for _, f := range res.Violations {
			rep.Report(x.Name, f.V.Kind, f.V.Detail, map[string]interface{}{"hist": f.Hist, "ops": f.Ops}, nil)
		}
		states += res.States
		interesting += res.InterestingStates
		trans += res.HistTransitions + res.StateTransitions
		traces += res.Histories + res.StateTransitions
		exhaustive = exhaustive && res.HistExhaustive
		closedAll = closedAll && (res.Closed || r.deep || r.probes) // the deep and probe passes have no pass (b)
		for _, s := range res.Samples {
			if len(samples) < 8 {
				samples = append(samples, map[string]interface{}{"config": x.Name, "history": s})
			}
		}
		perCfg = append(perCfg, map[string]interface{}{"config": x.Name, "histories": res.Histories, "hist_depth_completed": res.HistDepthDone,
			"states": res.States, "state_transitions": res.StateTransitions, "state_depth": res.StateDepthDone, "closed": res.Closed, "caps_hit": res.CapsHit})
		fmt.Printf("C04 %s: histories=%d (depth %d) states=%d transitions=%d closed=%v violations=%d\n", x.Name, res.Histories, res.HistDepthDone, res.States, res.StateTransitions, res.Closed, len(res.Violations))
	}
	if states == 0 {
		states = traces
	}
	cov["states"] = states
	cov["transitions"] = trans
	cov["traces_validated_against_impl"] = traces
	cov["samples"] = samples
	cov["evaluations"] = traces
	cov["distinct_nontrivial"] = interesting
	cov["rule"] = "pass (a): every history of the 57-message alphabet (2 domains, 0 and 65536, x 2 ids x {6 valid templates incl. one that extends another, one that differs only in enterprise number and one announcing a non-registry width, 5 bad templates (two of them valid in the lenient modes, announcing one unknown element with two widths), 3 data bodies}) up to hist_depth, replayed on a fresh collector in lock-step with the tmplstore/refcodec model; pass (b): BFS de-duplicated on the collector's template-table snapshot until the graph closes; probe pass: every history up to depth 4 (thorough 5) over an 11-message alphabet containing template records with a field count of 0 (RFC 7011 withdrawals; the pinned library stores an empty template): whatever such a message does in its own observation domain, the tables of the other domains must be unchanged; deep pass: every history up to deep_depth over a 10-message sub-alphabet (one domain, two ids x {2 templates, 1 bad template, 2 bodies}) in strict/tcp and drop/udp, for state the table snapshot does not show. distinct_nontrivial = distinct reachable template tables with at least one template"
	cov["exhaustive"] = exhaustive && closedAll
	cov["closed"] = closedAll
	cov["per_config"] = perCfg
	cov["hist_depth"] = histDepth
	cov["deep_depth"] = deepDepth
	ev.Coverage = cov
	ev.Assumptions = []string{"known elements are decoded at the registry's width (reduced-size encoding is not supported by the library and not in the alphabet)", "template lifetime is out of scope here (clock never fires); see C10"}
	ev.WallS = common.Since(rep.Start)
	ev.Violations = rep.Violations()
	common.WriteEvidence(ev)
	return rep.Finish()
}
