package main

import (
	"encoding/binary"
	"fmt"
	"net"
	"reflect"
	"strings"
	"time"

	"github.com/IBM/sarama"
	"google.golang.org/protobuf/proto"

	"github.com/vmware/go-ipfix/pkg/entities"
	"github.com/vmware/go-ipfix/pkg/kafka/consumer"
	"github.com/vmware/go-ipfix/pkg/kafka/producer"
	"github.com/vmware/go-ipfix/pkg/kafka/producer/convertor"
	convtest "github.com/vmware/go-ipfix/pkg/kafka/producer/convertor/test"
	"github.com/vmware/go-ipfix/pkg/kafka/producer/protobuf"
	"github.com/vmware/go-ipfix/pkg/registry"

	"verifharness/common"
)

func init() { checks["C19"] = runC19 }

// capturing producer: holds every message by reference and encodes only at the end, like a real
// asynchronous producer that has not flushed yet
type c19producer struct {
	in   chan *sarama.ProducerMessage
	got  []*sarama.ProducerMessage
	done chan struct{}
}

func newC19producer() *c19producer {
	p := &c19producer{in: make(chan *sarama.ProducerMessage), done: make(chan struct{})}
	go func() {
		for m := range p.in {
			p.got = append(p.got, m)
		}
		close(p.done)
	}()
	return p
}

func (p *c19producer) AsyncClose()                               { close(p.in) }
func (p *c19producer) Close() error                              { close(p.in); <-p.done; return nil }
func (p *c19producer) Input() chan<- *sarama.ProducerMessage     { return p.in }
func (p *c19producer) Successes() <-chan *sarama.ProducerMessage { return nil }
func (p *c19producer) Errors() <-chan *sarama.ProducerError      { return nil }
func (p *c19producer) IsTransactional() bool                     { return false }
func (p *c19producer) TxnStatus() sarama.ProducerTxnStatusFlag   { return 0 }
func (p *c19producer) BeginTxn() error                           { return nil }
func (p *c19producer) CommitTxn() error                          { return nil }
func (p *c19producer) AbortTxn() error                           { return nil }
func (p *c19producer) AddOffsetsToTxn(map[string][]*sarama.PartitionOffsetMetadata, string) error {
	return nil
}
func (p *c19producer) AddMessageToTxn(*sarama.ConsumerMessage, string, *string) error { return nil }

// kafkamap: information element name -> proto field name, written from flow.proto
var c19map = map[string]string{
	"flowStartSeconds": "TimeFlowStartInSecs", "flowEndSeconds": "TimeFlowEndInSecs",
	"sourceIPv4Address": "SrcIP", "sourceIPv6Address": "SrcIP", "destinationIPv4Address": "DstIP", "destinationIPv6Address": "DstIP",
	"sourceTransportPort": "SrcPort", "destinationTransportPort": "DstPort", "protocolIdentifier": "Proto",
	"packetTotalCount": "PacketsTotal", "octetTotalCount": "BytesTotal", "packetDeltaCount": "PacketsDelta", "octetDeltaCount": "BytesDelta",
	"reversePacketTotalCount": "ReversePacketsTotal", "reverseOctetTotalCount": "ReverseBytesTotal", "reversePacketDeltaCount": "ReversePacketsDelta", "reverseOctetDeltaCount": "ReverseBytesDelta",
	"sourcePodName": "SrcPodName", "sourcePodNamespace": "SrcPodNamespace", "sourceNodeName": "SrcNodeName",
	"destinationPodName": "DstPodName", "destinationPodNamespace": "DstPodNamespace", "destinationNodeName": "DstNodeName",
	"destinationClusterIPv4": "DstClusterIP", "destinationClusterIPv6": "DstClusterIP", "destinationServicePort": "DstServicePort", "destinationServicePortName": "DstServicePortName",
	"ingressNetworkPolicyName": "IngressPolicyName", "ingressNetworkPolicyNamespace": "IngressPolicyNamespace",
	"egressNetworkPolicyName": "EgressPolicyName", "egressNetworkPolicyNamespace": "EgressPolicyNamespace",
	// FlowType2 only
	"flowEndReason": "FlowEndReason", "tcpState": "TcpState",
}

type c19field struct {
	name string
	ent  uint32
}

func c19fields(v6 bool, schema int) []c19field {
	A, R := registry.AntreaEnterpriseID, registry.IANAReversedEnterpriseID
	f := []c19field{{"flowStartSeconds", 0}, {"flowEndSeconds", 0}}
	if !v6 {
		// an element the proto schemas have no field for: first in the IPv4 layout, last in the IPv6 one
		f = append([]c19field{{"ingressInterface", 0}}, f...)
	}
	if v6 {
		f = append(f, c19field{"sourceIPv6Address", 0}, c19field{"destinationIPv6Address", 0})
	} else {
		f = append(f, c19field{"sourceIPv4Address", 0}, c19field{"destinationIPv4Address", 0})
	}
	f = append(f, c19field{"sourceTransportPort", 0}, c19field{"destinationTransportPort", 0}, c19field{"protocolIdentifier", 0},
		c19field{"packetTotalCount", 0}, c19field{"octetTotalCount", 0}, c19field{"packetDeltaCount", 0}, c19field{"octetDeltaCount", 0},
		c19field{"reversePacketTotalCount", R}, c19field{"reverseOctetTotalCount", R}, c19field{"reversePacketDeltaCount", R}, c19field{"reverseOctetDeltaCount", R},
		c19field{"sourcePodName", A}, c19field{"sourcePodNamespace", A}, c19field{"sourceNodeName", A},
		c19field{"destinationPodName", A}, c19field{"destinationPodNamespace", A}, c19field{"destinationNodeName", A})
	if v6 {
		f = append(f, c19field{"destinationClusterIPv6", A})
	} else {
		f = append(f, c19field{"destinationClusterIPv4", A})
	}
	f = append(f, c19field{"destinationServicePort", A}, c19field{"destinationServicePortName", A},
		c19field{"ingressNetworkPolicyName", A}, c19field{"ingressNetworkPolicyNamespace", A}, c19field{"egressNetworkPolicyName", A}, c19field{"egressNetworkPolicyNamespace", A})
	if schema == 2 {
		f = append(f, c19field{"flowEndReason", 0}, c19field{"tcpState", A})
	}
	if v6 {
		f = append(f, c19field{"egressInterface", 0})
	}
	return f
}

// profile: 0 zero, 1 typical, 2 max, 3 typical with a sourcePodName that is not valid UTF-8 (cannot be marshalled)
// returns the record and the expected proto field values (as strings)
func c19record(v6 bool, profile, schema, salt int) (entities.Record, map[string]string) {
	want := map[string]string{}
	var els []entities.InfoElementWithValue
	for i, f := range c19fields(v6, schema) {
		ie, err := registry.GetInfoElement(f.name, f.ent)
		if err != nil {
			panic(err)
		}
		pf, mapped := c19map[f.name]
		bad := profile == 3
		if bad {
			profile = 1
		}
		var e entities.InfoElementWithValue
		switch ie.DataType {
		case entities.Unsigned32:
			e = entities.NewUnsigned32InfoElement(ie, uint32(7000+salt))
		case entities.Unsigned8:
			v := []uint8{0, uint8(6 + salt), 255}[profile]
			e, want[pf] = entities.NewUnsigned8InfoElement(ie, v), fmt.Sprint(v)
		case entities.Unsigned16:
			v := []uint16{0, uint16(1000 + i + salt), 65535}[profile]
			e, want[pf] = entities.NewUnsigned16InfoElement(ie, v), fmt.Sprint(v)
		case entities.Unsigned64:
			v := []uint64{0, uint64(1000*i + salt), ^uint64(0)}[profile]
			e, want[pf] = entities.NewUnsigned64InfoElement(ie, v), fmt.Sprint(v)
		case entities.DateTimeSeconds:
			v := []uint32{0, uint32(1700000000 + i + salt), ^uint32(0)}[profile]
			e, want[pf] = entities.NewDateTimeSecondsInfoElement(ie, v), fmt.Sprint(v)
		case entities.Ipv4Address:
			ip := []net.IP{net.IPv4(0, 0, 0, 0).To4(), net.IPv4(10, 0, byte(i), byte(1+salt)).To4(), net.IPv4(255, 255, 255, 255).To4()}[profile]
			e, want[pf] = entities.NewIPAddressInfoElement(ie, ip), ip.String()
		case entities.Ipv6Address:
			ip := []net.IP{net.ParseIP("::"), net.ParseIP(fmt.Sprintf("2001:db8::%x:%x", i+1, salt+1)), net.ParseIP("ffff:ffff:ffff:ffff:ffff:ffff:ffff:ffff")}[profile]
			e, want[pf] = entities.NewIPAddressInfoElement(ie, ip), ip.String()
		case entities.String:
			v := []string{"", fmt.Sprintf("%s-%d", f.name, salt), strings.Repeat("Z", 300)}[profile]
			if bad && f.name == "sourcePodName" {
				v = "pod-\xff\xfe"
			}
			e, want[pf] = entities.NewStringInfoElement(ie, v), v
		default:
			panic(fmt.Sprintf("c19record: %s type %d", f.name, ie.DataType))
		}
		if !mapped {
			delete(want, "")
		}
		if bad {
			profile = 3
		}
		els = append(els, e)
	}
	return entities.NewDataRecordFromElements(256, els, true), want
}

type c19elem struct {
	name string
	tmpl bool
	recs [][3]int // (v6, profile, salt)
}

var c19alphabet = []c19elem{
	{"Template", true, nil},
	{"Data(0 records)", false, nil},
	{"Data(1: v4 typical)", false, [][3]int{{0, 1, 1}}},
	{"Data(1: v6 max)", false, [][3]int{{1, 2, 2}}},
	{"Data(2: v4 max, v4 zero)", false, [][3]int{{0, 2, 3}, {0, 0, 4}}},
	{"Data(3: v6 typical, v4 typical, v6 zero)", false, [][3]int{{1, 1, 5}, {0, 1, 6}, {1, 0, 7}}},
	{"Data(3: v4, v4 whose pod name is not UTF-8, v4)", false, [][3]int{{0, 1, 8}, {0, 3, 9}, {0, 1, 10}}},
}

type c19expect struct {
	optional bool // the record cannot be marshalled: it may be left out (nothing else may)
	want     map[string]string
	time     uint32
	seq      uint32
	dom      uint32
	addr     string
}

func c19stream(stream []int, schema int) ([]*entities.Message, []c19expect) {
	var msgs []*entities.Message
	var exp []c19expect
	for i, k := range stream {
		el := c19alphabet[k]
		set := entities.NewSet(true)
		m := entities.NewMessage(true)
		m.SetVersion(10)
		m.SetExportTime(uint32(1600000000 + i))
		m.SetSequenceNum(uint32(100 + i))
		m.SetObsDomainID(uint32(7 + i))
		addr := fmt.Sprintf("10.1.1.%d", i+1)
		if i%2 == 1 {
			addr = fmt.Sprintf("2001:db8::%x", i+1) // every other exporter is an IPv6 one
		}
		m.SetExportAddress(addr)
		if el.tmpl {
			set.PrepareSet(entities.Template, 256)
			var els []entities.InfoElementWithValue
			for _, f := range c19fields(false, schema) {
				ie, _ := registry.GetInfoElement(f.name, f.ent)
				e, _ := entities.DecodeAndCreateInfoElementWithValue(ie, nil)
				els = append(els, e)
			}
			set.AddRecordV2(els, 256)
		} else {
			set.PrepareSet(entities.Data, 256)
			for _, r := range el.recs {
				rec, want := c19record(r[0] == 1, r[1], schema, r[2])
				set.AddRecordV2(rec.GetOrderedElementList(), 256)
				exp = append(exp, c19expect{r[1] == 3, want, uint32(1600000000 + i), uint32(100 + i), uint32(7 + i), addr})
			}
		}
		m.AddSet(set)
		msgs = append(msgs, m)
	}
	return msgs, exp
}

// c19ackProducer models an asynchronous producer with Return.Successes: bounded input and acknowledgement
// channels (256 each, sarama's default ChannelBufferSize); every message taken from the input is
// acknowledged on Successes().
type c19ackProducer struct {
	c19producer
	succ chan *sarama.ProducerMessage
}

func newC19ackProducer() *c19ackProducer {
	p := &c19ackProducer{c19producer: c19producer{in: make(chan *sarama.ProducerMessage, 256), done: make(chan struct{})}, succ: make(chan *sarama.ProducerMessage, 256)}
	go func() {
		for m := range p.in {
			p.got = append(p.got, m)
			p.succ <- m
		}
		close(p.done)
	}()
	return p
}

func (p *c19ackProducer) Successes() <-chan *sarama.ProducerMessage { return p.succ }

// c19big is outside the enumerated alphabet: one data message with 600 records, used by the
// acknowledged-mode pass (more records than the producer's channels hold).
var c19big = func() c19elem {
	e := c19elem{"Data(600 records)", false, nil}
	for i := 0; i < 600; i++ {
		e.recs = append(e.recs, [3]int{i % 2, 1 + i%2, 10 + i})
	}
	return e
}()

// c19reporter lets sarama's mock broker report its own complaints.
type c19reporter struct{ errs []string }

func (r *c19reporter) Error(a ...interface{})            { r.errs = append(r.errs, fmt.Sprint(a...)) }
func (r *c19reporter) Errorf(f string, a ...interface{}) { r.errs = append(r.errs, fmt.Sprintf(f, a...)) }
func (r *c19reporter) Fatal(a ...interface{})            { r.errs = append(r.errs, fmt.Sprint(a...)) }
func (r *c19reporter) Fatalf(f string, a ...interface{}) { r.errs = append(r.errs, fmt.Sprintf(f, a...)) }
func (r *c19reporter) Helper()                           {}

// c19realClient: the producer the library itself sets up (InitSaramaProducer: sarama's real asynchronous
// client and its configuration) against sarama's in-process mock broker. 120 data messages of 25 records
// must be taken by the client and reach the broker in produce requests without the publisher getting stuck
// (normal duration: well under a second; 30 s allowance).
func c19realClient(schema int, logSuccesses bool) *[2]string {
	var conv convertor.IPFIXToKafkaConvertor
	if schema == 1 {
		conv = convtest.NewFlowType1Convertor()
	} else {
		conv = convtest.NewFlowType2Convertor()
	}
	tr := &c19reporter{}
	broker := sarama.NewMockBroker(tr, 1)
	defer broker.Close()
	const topic = "Flows.Topic_v2-X"
	broker.SetHandlerByMap(map[string]sarama.MockResponse{
		"MetadataRequest": sarama.NewMockMetadataResponse(tr).SetBroker(broker.Addr(), broker.BrokerID()).SetLeader(topic, 0, broker.BrokerID()),
		"ProduceRequest":  sarama.NewMockProduceResponse(tr),
	})
	kp, err := producer.NewKafkaProducer(producer.ProducerInput{KafkaBrokers: []string{broker.Addr()}, KafkaVersion: sarama.DefaultVersion, KafkaTopic: topic,
		ProtoSchemaConvertor: conv, KafkaLogSuccesses: logSuccesses})
	if err != nil {
		return fail("setup", "%v", err)
	}
	if err := kp.InitSaramaProducer(); err != nil {
		return fail("setup", "InitSaramaProducer against the mock broker: %v", err)
	}
	const nMsgs, perMsg = 120, 25
	ch := make(chan *entities.Message, nMsgs)
	for i := 0; i < nMsgs; i++ {
		set := entities.NewSet(true)
		m := entities.NewMessage(true)
		m.SetVersion(10)
		m.SetExportTime(uint32(1600000000 + i))
		m.SetSequenceNum(uint32(i * perMsg))
		m.SetObsDomainID(7)
		m.SetExportAddress("10.1.1.1")
		set.PrepareSet(entities.Data, 256)
		for r := 0; r < perMsg; r++ {
			rec, _ := c19record(false, 1, schema, i*perMsg+r)
			set.AddRecordV2(rec.GetOrderedElementList(), 256)
		}
		m.AddSet(set)
		ch <- m
	}
	close(ch)
	fin := make(chan struct{})
	go func() { kp.PublishIPFIXMessages(ch); kp.Close(); close(fin) }()
	select {
	case <-fin:
	case <-time.After(30 * time.Second):
		n := 0
		for _, h := range broker.History() {
			if _, ok := h.Request.(*sarama.ProduceRequest); ok {
				n++
			}
		}
		return fail("publish-stuck", "the library's own sarama client (InitSaramaProducer, KafkaLogSuccesses=%v) had not finished publishing %d records and closing after 30 s; the broker has seen %d produce requests", logSuccesses, nMsgs*perMsg, n)
	}
	n := 0
	for _, h := range broker.History() {
		if _, ok := h.Request.(*sarama.ProduceRequest); ok {
			n++
		}
	}
	if n == 0 {
		return fail("nothing-produced", "the library's own sarama client finished, yet the broker saw no produce request for %d records", nMsgs*perMsg)
	}
	return nil
}

func c19check(stream []int, schema int) *[2]string { return c19checkMode(stream, schema, false) }

func c19checkMode(stream []int, schema int, ack bool) *[2]string {
	var conv convertor.IPFIXToKafkaConvertor
	var mk func() proto.Message
	if schema == 1 {
		conv, mk = convtest.NewFlowType1Convertor(), func() proto.Message { return &protobuf.FlowType1{} }
	} else {
		conv, mk = convtest.NewFlowType2Convertor(), func() proto.Message { return &protobuf.FlowType2{} }
	}
	kp, err := producer.NewKafkaProducer(producer.ProducerInput{KafkaVersion: sarama.DefaultVersion, KafkaTopic: "Flows.Topic_v2-X", ProtoSchemaConvertor: conv, KafkaLogSuccesses: ack})
	if err != nil {
		return fail("setup", "%v", err)
	}
	fp := newC19producer()
	if ack {
		ap := newC19ackProducer()
		fp = &ap.c19producer
		kp.SetSaramaProducer(ap)
	} else {
		kp.SetSaramaProducer(fp)
	}
	msgs, exp := c19stream(stream, schema)
	ch := make(chan *entities.Message, len(msgs))
	for _, m := range msgs {
		ch <- m
	}
	close(ch)
	if ack {
		// publishing waits for acknowledgements: a producer that deadlocks against the bounded channels
		// must end as a violation, not as a hung check (normal duration: milliseconds)
		fin := make(chan struct{})
		go func() { kp.PublishIPFIXMessages(ch); close(fin) }()
		select {
		case <-fin:
		case <-time.After(30 * time.Second):
			return fail("publish-stuck", "with success logging enabled, publishing a stream carrying %d data records had not finished after 30 s (%d messages reached the producer)", len(exp), len(fp.got))
		}
	} else {
		kp.PublishIPFIXMessages(ch)
	}
	fp.Close()
	if len(fp.got) != len(exp) {
		var must []c19expect
		for _, e := range exp {
			if !e.optional {
				must = append(must, e)
			}
		}
		if len(fp.got) == len(must) {
			exp = must
		}
	}
	if len(fp.got) != len(exp) {
		return fail("message-count", "%d Kafka messages published, the stream carries %d data records", len(fp.got), len(exp))
	}
	// one long-lived consumer (and schema message) for the whole stream, as in the shipped consumer
	schemaMsg := mk()
	kc := consumer.NewKafkaConsumer(consumer.ConsumerInput{KafkaTopic: "Flows.Topic_v2-X", KafkaProtoSchema: schemaMsg, MsgDelimitWithLen: true})
	for i, pm := range fp.got {
		if pm.Topic != "Flows.Topic_v2-X" {
			return fail("topic", "message %d published on topic %q", i, pm.Topic)
		}
		b, err := pm.Value.Encode()
		if err != nil {
			return fail("payload", "message %d: %v", i, err)
		}
		if len(b) < 4 {
			return fail("framing", "message %d payload has %d bytes", i, len(b))
		}
		n := binary.BigEndian.Uint32(b)
		if int(n) != len(b)-4 {
			return fail("framing", "message %d: length prefix says %d, %d bytes follow", i, n, len(b)-4)
		}
		out := mk()
		if err := proto.Unmarshal(b[4:], out); err != nil {
			return fail("protobuf", "message %d does not unmarshal: %v", i, err)
		}
		v := reflect.ValueOf(out).Elem()
		get := func(f string) string {
			fv := v.FieldByName(f)
			if !fv.IsValid() {
				return "<no such field>"
			}
			return fmt.Sprint(fv.Interface())
		}
		e := exp[i]
		if get("TimeReceived") != fmt.Sprint(e.time) || get("SequenceNumber") != fmt.Sprint(e.seq) || get("ObsDomainID") != fmt.Sprint(e.dom) || get("ExportAddress") != e.addr {
			return fail("message-fields", "message %d carries time/seq/domain/address %s/%s/%s/%s, the IPFIX message had %d/%d/%d/%s (order or attribution wrong)", i, get("TimeReceived"), get("SequenceNumber"), get("ObsDomainID"), get("ExportAddress"), e.time, e.seq, e.dom, e.addr)
		}
		for f, want := range e.want {
			if got := get(f); got != want {
				return fail("field-value", "message %d field %s = %q, the record has %q", i, f, short([]byte(got)), short([]byte(want)))
			}
		}
		if err := kc.DecodeAndPrintMsg(&sarama.ConsumerMessage{Topic: pm.Topic, Value: b}); err != nil {
			return fail("consumer", "the consumer-side decoder refuses message %d: %v", i, err)
		}
		// ... and recovers the same values: what it decoded must equal an independent decode of the payload
		if !proto.Equal(schemaMsg, out) {
			cv := reflect.ValueOf(schemaMsg).Elem()
			diff := ""
			for f, want := range e.want {
				if got := fmt.Sprint(cv.FieldByName(f).Interface()); got != want {
					diff = fmt.Sprintf("%s = %q, the record has %q", f, short([]byte(got)), short([]byte(want)))
				}
			}
			return fail("consumer-values", "the consumer-side decoder accepts message %d but does not recover its values (%s)", i, diff)
		}
	}
	return nil
}

func runC19(tier, replay string) int {
	rep := common.NewReporter("C19")
	maxLen := 3
	if tier == "thorough" {
		maxLen = 4
	}
	if tier == "replay" {
		fmt.Println("C19 replays: re-run the check; the failing stream is named in the replay file")
		tier = "quick"
	}
	N := len(c19alphabet)
	streams := 0
	var samples []interface{}
	names := func(s []int) []string {
		var o []string
		for _, k := range s {
			o = append(o, c19alphabet[k].name)
		}
		return o
	}
	records := 0
	for L := 1; L <= maxLen; L++ {
		total := 1
		for i := 0; i < L; i++ {
			total *= N
		}
		for n := 0; n < total; n++ {
			s := make([]int, L)
			x := n
			for i := L - 1; i >= 0; i-- {
				s[i] = x % N
				x /= N
			}
			for schema := 1; schema <= 2; schema++ {
				streams++
				for _, k := range s {
					records += len(c19alphabet[k].recs)
				}
				if res := c19check(s, schema); res != nil {
					rep.Report(fmt.Sprintf("FlowType%d", schema), res[0], fmt.Sprintf("stream %v: %s", names(s), res[1]), map[string]interface{}{"stream": names(s), "schema": schema}, nil)
					if rep.Violations() > 10 {
						goto done
					}
				}
			}
			if n%97 == 0 && len(samples) < 6 {
				samples = append(samples, names(s))
			}
		}
	}
	// acknowledged mode (KafkaLogSuccesses): every stream of length <= 2 over the alphabet, and streams with a
	// 600-record message
	c19alphabet = append(c19alphabet, c19big)
	for schema := 1; schema <= 2 && rep.Violations() == 0; schema++ {
		var ss [][]int
		for a := 0; a < N; a++ {
			ss = append(ss, []int{a})
			for b := 0; b < N; b++ {
				ss = append(ss, []int{a, b})
			}
		}
		ss = append(ss, []int{0, N, 2}, []int{N}, []int{4, N, N, 3})
		for _, st := range ss {
			streams++
			for _, k := range st {
				records += len(c19alphabet[k].recs)
			}
			if res := c19checkMode(st, schema, true); res != nil {
				rep.Report(fmt.Sprintf("FlowType%d,acknowledged", schema), res[0], fmt.Sprintf("stream %v with success logging: %s", names(st), res[1]), map[string]interface{}{"stream": names(st), "schema": schema, "ack": true}, nil)
				break
			}
		}
	}
	// the client the library configures itself, against sarama's mock broker
	for schema := 1; schema <= 2 && rep.Violations() == 0; schema++ {
		for _, ls := range []bool{false, true} {
			streams++
			records += 120 * 25
			if res := c19realClient(schema, ls); res != nil {
				rep.Report(fmt.Sprintf("FlowType%d,real-client", schema), res[0], res[1], map[string]interface{}{"schema": schema, "logSuccesses": ls}, nil)
				break
			}
		}
	}
done:
	fmt.Printf("C19 %s: streams=%d records published and decoded=%d violations=%d\n", tier, streams, records, rep.Violations())
	ev := &common.Evidence{PropertyID: "C19", Tier: tier}
	ev.Coverage = common.Coverage{
		"states": streams, "transitions": records, "traces_validated_against_impl": streams, "samples": samples,
		"evaluations": streams, "distinct_nontrivial": streams,
		"rule":       fmt.Sprintf("every stream of length 1..%d over {template message, data message with 0 records, 1 (IPv4 typical), 1 (IPv6 maximal), 2 (IPv4 maximal then IPv4 zero), 3 (IPv6, IPv4, IPv6 zero), 3 (the middle one with a pod name that is not UTF-8 and cannot be marshalled: it alone may be left out)}; every record also carries an element the schema has no field for (first in the IPv4 layout, last in the IPv6 one) x both shipped proto schemas through PublishIPFIXMessages with a capturing producer that keeps every message by reference until the end (as an unflushed async producer does); oracle: one message per data record in stream+record order, none for templates, configured topic, 4-byte big-endian length + exactly that many bytes, protobuf decodes to the record's values (table written from flow.proto) and the carrying message's export time / sequence / domain / exporter address, and the consumer-side decoder accepts it and recovers the same values; exporter addresses alternate between IPv4 and IPv6; in addition every stream of length <= 2 and three streams with a 600-record message are published with KafkaLogSuccesses through a producer whose input and acknowledgement channels hold 256 messages each; finally 3000 records go through the client the library configures itself (InitSaramaProducer) to sarama's in-process mock broker, with and without success logging, and must be produced without the publisher getting stuck. Streams are distinct by construction", maxLen),
		"exhaustive": true,
	}
	ev.WallS = common.Since(rep.Start)
	ev.Violations = rep.Violations()
	common.WriteEvidence(ev)
	return rep.Finish()
}
