package main

import (
	"bytes"
	"fmt"
	"io"
	"net"
	"runtime"
	"sync"
	"sync/atomic"
	"time"

	"github.com/vmware/go-ipfix/pkg/entities"
	"github.com/vmware/go-ipfix/pkg/exporter"

	"verifharness/common"
	"verifharness/refcodec"
)

func init() { checks["C02"] = runC02 }

// rawPeer is the independent receiver: a plain socket read loop, no library code.
type rawPeer struct {
	proto string
	ln    net.Listener
	conn  net.Conn
	udp   *net.UDPConn
}

func newRawPeer(proto string) (*rawPeer, string) {
	if proto == "tcp" {
		ln, err := net.Listen("tcp", "127.0.0.1:0")
		if err != nil {
			panic(err)
		}
		return &rawPeer{proto: proto, ln: ln}, ln.Addr().String()
	}
	u, err := net.ListenUDP("udp", &net.UDPAddr{IP: net.ParseIP("127.0.0.1")})
	if err != nil {
		panic(err)
	}
	u.SetReadBuffer(4 << 20)
	return &rawPeer{proto: proto, udp: u}, u.LocalAddr().String()
}

func (p *rawPeer) accept() {
	if p.proto == "tcp" {
		c, err := p.ln.Accept()
		if err != nil {
			panic(err)
		}
		p.conn = c
	}
}

// next returns the next message on the wire (n = byte count SendSet reported).
func (p *rawPeer) next(n int) ([]byte, error) {
	if p.proto == "tcp" {
		p.conn.SetReadDeadline(time.Now().Add(10 * time.Second))
		b := make([]byte, n)
		_, err := io.ReadFull(p.conn, b)
		return b, err
	}
	p.udp.SetReadDeadline(time.Now().Add(10 * time.Second))
	b := make([]byte, 65536)
	k, _, err := p.udp.ReadFromUDP(b)
	return b[:k], err
}

// pending reports whether unexpected bytes are waiting (after a refused send nothing may be on the wire).
func (p *rawPeer) pending() bool {
	b := make([]byte, 1)
	if p.proto == "tcp" {
		p.conn.SetReadDeadline(time.Now().Add(20 * time.Millisecond))
		n, _ := p.conn.Read(b)
		return n > 0
	}
	p.udp.SetReadDeadline(time.Now().Add(20 * time.Millisecond))
	n, _, _ := p.udp.ReadFromUDP(make([]byte, 65536))
	return n > 0
}

func (p *rawPeer) close() {
	if p.ln != nil {
		p.ln.Close()
	}
	if p.conn != nil {
		p.conn.Close()
	}
	if p.udp != nil {
		p.udp.Close()
	}
}

type c02fail struct {
	kind, detail, caseName string
}

// c02refresh: the messages the exporter's own UDP template refresh puts on the wire are held to the same
// standard as the ones SendSet writes. A second exporter with a 1 s refresh interval sends the templates of
// up to 48 cases; the retransmissions that follow (real ticker) must each be one well-formed template
// message whose record equals a template that was sent, and every template must come round. Only content is
// judged promptly; "came round" has a 15 s allowance.
func c02refresh(cases []e2eCase, msgs *int64, report func(c02fail)) {
	if len(cases) > 48 {
		cases = cases[:48]
	}
	peer, addr := newRawPeer("udp")
	defer peer.close()
	ep, err := exporter.InitExportingProcess(exporter.ExporterInput{CollectorAddress: addr, CollectorProtocol: "udp", ObservationDomainID: 0xC0FFEE, TempRefTimeout: 1})
	if err != nil {
		report(c02fail{"init-error", err.Error(), ""})
		return
	}
	defer ep.CloseConnToCollector()
	sent := map[uint16]refcodec.Template{}
	names := map[uint16]string{}
	for _, c := range cases {
		id := ep.NewTemplateID()
		if _, err := ep.SendSet(c.tmplSet(id)); err != nil {
			report(c02fail{"send-error", fmt.Sprintf("template: SendSet failed: %v", err), c.name})
			return
		}
		sent[id] = c.template(id)
		names[id] = c.name
	}
	seen := map[uint16]int{}
	deadline := time.Now().Add(15 * time.Second)
	again := 0 // templates seen at least twice (first transmission + one refresh)
	for again < len(sent) && time.Now().Before(deadline) {
		peer.udp.SetReadDeadline(deadline)
		b := make([]byte, 65536)
		k, _, err := peer.udp.ReadFromUDP(b)
		if err != nil {
			break
		}
		atomic.AddInt64(msgs, 1)
		p, err := refcodec.StrictCheck(b[:k])
		if err != nil || p.SetID != 2 {
			report(c02fail{"refresh-malformed", fmt.Sprintf("message #%d of a session that only sent templates is not a well-formed template message: %v (set id %d, %x)", len(seen), err, p.SetID, short(b[:k])), ""})
			return
		}
		tt, rest, _, err := refcodec.ParseTemplateBody(p.Body)
		want, ok := sent[tt.ID]
		if err != nil || len(rest) != 0 || !ok || fmt.Sprint(tt.Fields) != fmt.Sprint(want.Fields) {
			report(c02fail{"refresh-template", fmt.Sprintf("template %d on the wire (transmission #%d) is %+v (err %v, %d trailing bytes), the template handed to SendSet was %+v", tt.ID, seen[tt.ID]+1, tt.Fields, err, len(rest), want.Fields), names[tt.ID]})
			return
		}
		seen[tt.ID]++
		if seen[tt.ID] == 2 {
			again++
		}
	}
	if again < len(sent) {
		report(c02fail{"refresh-missing", fmt.Sprintf("only %d of %d templates were retransmitted within 15 s of a 1 s refresh interval", again, len(sent)), ""})
	}
}

// c02session runs a slice of cases over one exporter/raw peer pair.
func c02session(proto string, cases []e2eCase, msgs *int64, report func(c02fail)) {
	peer, addr := newRawPeer(proto)
	defer peer.close()
	const domain = 0xC0FFEE
	ep, err := exporter.InitExportingProcess(exporter.ExporterInput{CollectorAddress: addr, CollectorProtocol: proto, ObservationDomainID: domain, TempRefTimeout: 3600})
	if err != nil {
		report(c02fail{"init-error", err.Error(), ""})
		return
	}
	defer ep.CloseConnToCollector()
	peer.accept()
	var seq, slack uint32 // slack: records of refused sends since the last message seen on the wire
	limit := 65535
	if proto == "udp" {
		limit = 65507
	}
	reused := entities.NewSet(false) // every other set of the session is built on this one after ResetSet
	pick := func(i int) entities.Set {
		if i%2 == 1 {
			return reused
		}
		return nil
	}
	for ci, c := range cases {
		id := ep.NewTemplateID()
		t := c.template(id)
		check := func(what string, n int, err error, isTemplate bool, recs [][][]byte) bool {
			if err != nil {
				report(c02fail{"send-error", fmt.Sprintf("%s: SendSet failed: %v", what, err), c.name})
				return false
			}
			b, rerr := peer.next(n)
			atomic.AddInt64(msgs, 1)
			if rerr != nil {
				report(c02fail{"nothing-on-wire", fmt.Sprintf("%s: SendSet reported %d bytes but the peer socket got %d (%v)", what, n, len(b), rerr), c.name})
				return false
			}
			if len(b) != n {
				report(c02fail{"byte-count", fmt.Sprintf("%s: SendSet reported %d bytes, the peer received %d", what, n, len(b)), c.name})
			}
			p, err := refcodec.StrictCheck(b)
			if err != nil {
				report(c02fail{"malformed", fmt.Sprintf("%s: %v (first bytes %x)", what, err, short(b)), c.name})
				return false
			}
			if slack != 0 && p.Header.Seq == seq+slack {
				seq += slack // the refused attempts before this message had consumed sequence numbers: failed attempts are outside the statement, follow the library
			}
			slack = 0
			if p.Header.Domain != domain || p.Header.Seq != seq {
				report(c02fail{"header", fmt.Sprintf("%s: domain %#x seq %d on the wire, expected %#x / %d", what, p.Header.Domain, p.Header.Seq, domain, seq), c.name})
			}
			if isTemplate {
				if p.SetID != 2 {
					report(c02fail{"set-id", fmt.Sprintf("%s: template set id %d", what, p.SetID), c.name})
				}
				tt, rest, _, err := refcodec.ParseTemplateBody(p.Body)
				if err != nil || len(rest) != 0 || tt.ID != id || fmt.Sprint(tt.Fields) != fmt.Sprint(t.Fields) {
					report(c02fail{"template-record", fmt.Sprintf("%s: template record on the wire %+v (err %v, %d trailing bytes), expected %+v", what, tt, err, len(rest), t), c.name})
					return false
				}
				return true
			}
			if p.SetID != id {
				report(c02fail{"set-id", fmt.Sprintf("%s: data set id %d, template id %d", what, p.SetID, id), c.name})
			}
			got, pad, err := refcodec.ParseDataBody(p.Body, t.Fields)
			if err != nil || pad != 0 || len(got) != len(recs) {
				report(c02fail{"data-records", fmt.Sprintf("%s: body parses to %d records, padding %d, err %v; %d records were given", what, len(got), pad, err, len(recs)), c.name})
				return false
			}
			for i := range got {
				for j := range got[i] {
					if !bytes.Equal(got[i][j], recs[i][j]) {
						report(c02fail{"field-value", fmt.Sprintf("%s: record %d field %d (%s) on the wire %x, value given %x", what, i, j, c.elems[j].ie.Name, short(got[i][j]), short(recs[i][j])), c.name})
						return false
					}
				}
			}
			return true
		}
		n, err := ep.SendSet(c.tmplSetOn(pick(ci), id))
		if !check("template", n, err, true, nil) {
			return // the stream may be misaligned now; stop this session
		}
		for gi, g := range c.groups() {
			// size of the message per the reference
			size := 20
			for _, r := range g {
				size += len(refcodec.EncodeRecord(t, r))
			}
			set := c.dataSetOn(pick(gi+ci), id, g, gi)
			n, err := ep.SendSet(set)
			if size > limit {
				if err == nil {
					report(c02fail{"oversized-sent", fmt.Sprintf("data set of %d bytes (limit %d) was sent", size, limit), c.name})
					return
				}
				// whether a refused attempt consumed sequence numbers is not the statement's business
				slack += uint32(len(g))
				continue
			}
			seq += uint32(len(g))
			if !check(fmt.Sprintf("data set #%d (%d records)", gi, len(g)), n, err, false, g) {
				return
			}
		}
	}
	if peer.pending() {
		report(c02fail{"extra-bytes", "bytes are waiting on the peer socket after the last expected message", ""})
	}
}

func runC02(tier, replay string) int {
	rep := common.NewReporter("C02")
	if tier == "replay" {
		fmt.Println("C02 replays: re-run the check; failures are identified by template name in the replay file")
		tier = "quick"
	}
	var msgs int64
	var mu sync.Mutex
	seen := map[string]bool{}
	report := func(proto string) func(c02fail) {
		return func(f c02fail) {
			mu.Lock()
			defer mu.Unlock()
			k := proto + f.kind + f.caseName
			if seen[k] || len(seen) > 40 {
				return
			}
			seen[k] = true
			rep.Report(proto, f.kind, fmt.Sprintf("template [%s]: %s", f.caseName, f.detail), map[string]interface{}{"proto": proto, "template": f.caseName}, nil)
		}
	}
	total := 0
	var samples []interface{}
	for _, proto := range []string{"tcp", "udp"} {
		limit := 65535
		if proto == "udp" {
			limit = 65507
		}
		cases := e2eCases(tier, limit, tier == "thorough")
		total += len(cases)
		for i := 0; i < len(cases); i += len(cases)/3 + 1 {
			samples = append(samples, map[string]interface{}{"transport": proto, "template": cases[i].name, "records": len(cases[i].records)})
		}
		nw := runtime.NumCPU()
		var wg sync.WaitGroup
		for w := 0; w < nw; w++ {
			var mine []e2eCase
			for i := w; i < len(cases); i += nw {
				mine = append(mine, cases[i])
			}
			wg.Add(1)
			go func(mine []e2eCase) {
				defer wg.Done()
				c02session(proto, mine, &msgs, report(proto))
			}(mine)
		}
		if proto == "udp" {
			// enterprise-specific and IANA elements alike: the cases are ordered by element, take every k-th
			var pick []e2eCase
			for i := 0; i < len(cases); i += len(cases)/48 + 1 {
				pick = append(pick, cases[i])
			}
			wg.Add(1)
			go func() {
				defer wg.Done()
				c02refresh(pick, &msgs, report("udp-refresh"))
			}()
		}
		wg.Wait()
	}
	fmt.Printf("C02 %s: templates=%d messages parsed=%d violations=%d\n", tier, total, msgs, rep.Violations())
	ev := &common.Evidence{PropertyID: "C02", Tier: tier}
	ev.Coverage = common.Coverage{
		"states": total, "transitions": msgs, "traces_validated_against_impl": msgs, "samples": samples,
		"evaluations": msgs, "distinct_nontrivial": total,
		"rule":       "every template of arity 1..2 (thorough 3) over a 28-element alphabet (one element per supported type and registry: IANA, reverse 29305, Antrea 56506, user-registered 55555) with the cross product of per-type boundary values packed into data sets of 1,2,3,... records; variable-length values that exactly fill a message and one byte less; record counts fit-1 and fit; thorough: the arity-1 template of every registry element of a supported type with all boundary values; each sent through a real ExportingProcess over real loopback tcp and udp sockets to a raw peer socket, every message read from the wire parsed by the independent refcodec: version 10, header length = bytes received = SendSet's return value, one set covering the rest, set id 2 / template id, template record with enterprise bit and PEN exactly for enterprise elements, every data field at template width or correctly length-prefixed, values equal to the values given; over udp additionally one exporter with a 1 s refresh interval whose retransmitted templates (48 templates spread over the alphabet) are parsed the same way and compared with the templates handed to SendSet. distinct_nontrivial = distinct templates",
		"exhaustive": true, "messages": msgs,
	}
	ev.Assumptions = []string{"sockets and kernel scheduling are real; inputs are enumerated, schedules are whatever the OS gives", "a 10 s read deadline on the peer socket turns a missing message into a violation (typical latency is 0.1 ms)"}
	ev.WallS = common.Since(rep.Start)
	ev.Violations = rep.Violations()
	common.WriteEvidence(ev)
	return rep.Finish()
}
