package main

import (
	"fmt"
	"os"
	"runtime"
	"sync"
	"sync/atomic"
	"time"

	"github.com/vmware/go-ipfix/pkg/collector"
	"github.com/vmware/go-ipfix/pkg/entities"
	"github.com/vmware/go-ipfix/pkg/exporter"

	"verifharness/certs"
	"verifharness/common"
	"verifharness/refcodec"
)

func init() { checks["C01"] = runC01 }

type c01cfg struct {
	name      string
	proto     string
	encrypted bool
	addr      string
	maxMsg    int
}

func c01Cfgs() []c01cfg {
	return []c01cfg{
		{"tcp/ipv4", "tcp", false, "127.0.0.1:0", 65535},
		{"tcp/ipv6", "tcp", false, "[::1]:0", 65535},
		{"udp/ipv4", "udp", false, "127.0.0.1:0", 65507},
		{"udp/ipv6", "udp", false, "[::1]:0", 65487},
		{"tls/ipv4", "tcp", true, "127.0.0.1:0", 65535},
		{"tls/ipv6", "tcp", true, "[::1]:0", 65535},
		{"dtls/ipv4", "udp", true, "127.0.0.1:0", 8155},
		{"dtls/ipv6", "udp", true, "[::1]:0", 8155},
	}
}

type c01pki struct {
	ca        *certs.CA
	cert, key []byte
}

var c01certs *c01pki

func c01PKI() *c01pki {
	if c01certs == nil {
		ca := certs.NewCA("verif-ca")
		c, k := ca.Issue(certs.Opts{CN: "collector", DNS: []string{"localhost"}, IPs: certs.Loopback()})
		c01certs = &c01pki{ca, c, k}
	}
	return c01certs
}

type c01fail struct{ kind, detail, caseName string }

// c01guard: collector and exporter run inside this process; a decoder that allocates without end would kill
// the check with no verdict. The watchdog reports the template in flight instead (memory only: the receive
// timeouts of the sessions take care of hangs).
var c01guard *common.Guard

func c01session(cfg c01cfg, cases []e2eCase, msgs *int64, report func(c01fail)) {
	pki := c01PKI()
	slot := c01guard.Enter(cfg.name + ": session start")
	defer slot.Leave()
	in := collector.CollectorInput{Address: cfg.addr, Protocol: cfg.proto, MaxBufferSize: 65535, TemplateTTL: 0, IsEncrypted: cfg.encrypted}
	if cfg.encrypted {
		in.ServerCert, in.ServerKey = pki.cert, pki.key
	}
	cp, err := collector.InitCollectingProcess(in)
	if err != nil {
		report(c01fail{"init-error", err.Error(), ""})
		return
	}
	go cp.Start()
	defer cp.Stop()
	var addr string
	for i := 0; i < 2000; i++ {
		if a := cp.GetAddress(); a != nil {
			addr = a.String()
			break
		}
		time.Sleep(time.Millisecond)
	}
	if addr == "" {
		report(c01fail{"collector-not-listening", "collector did not start listening on " + cfg.addr, ""})
		return
	}
	const domain = 0xBEEF01
	ein := exporter.ExporterInput{CollectorAddress: addr, CollectorProtocol: cfg.proto, ObservationDomainID: domain, TempRefTimeout: 3600}
	if cfg.encrypted {
		ein.TLSClientConfig = &exporter.ExporterTLSClientConfig{ServerName: "localhost", CAData: pki.ca.PEM}
	}
	ep, err := exporter.InitExportingProcess(ein)
	if err != nil {
		report(c01fail{"exporter-init", fmt.Sprintf("%s: %v", cfg.name, err), ""})
		return
	}
	ch := cp.GetMsgChan()
	phase := 1
run:
	recv := func() *entities.Message {
		select {
		case m := <-ch:
			atomic.AddInt64(msgs, 1)
			return m
		case <-time.After(10 * time.Second):
			return nil
		}
	}
	reused := entities.NewSet(false) // every other set of the session is built on this one after ResetSet
	pick := func(i int) entities.Set {
		if i%2 == 1 {
			return reused
		}
		return nil
	}
	for ci, c := range cases {
		slot.Update(cfg.name + ", template " + c.name)
		id := ep.NewTemplateID()
		t := c.template(id)
		if _, err := ep.SendSet(c.tmplSetOn(pick(ci), id)); err != nil {
			report(c01fail{"send-error", fmt.Sprintf("template: %v", err), c.name})
			return
		}
		m := recv()
		if m == nil {
			report(c01fail{"not-delivered", "the template message was sent but the collector delivered nothing within 10 s", c.name})
			return
		}
		if m.GetObsDomainID() != domain || m.GetSet().GetSetType() != entities.Template || len(m.GetSet().GetRecords()) != 1 {
			report(c01fail{"template-shape", fmt.Sprintf("delivered domain %#x, set type %d, %d records", m.GetObsDomainID(), m.GetSet().GetSetType(), len(m.GetSet().GetRecords())), c.name})
			return
		}
		els := m.GetSet().GetRecords()[0].GetOrderedElementList()
		if len(els) != len(c.elems) || m.GetSet().GetRecords()[0].GetTemplateID() != id {
			report(c01fail{"template-fields", fmt.Sprintf("delivered template id %d with %d fields, sent id %d with %d", m.GetSet().GetRecords()[0].GetTemplateID(), len(els), id, len(c.elems)), c.name})
			return
		}
		for i, e := range c.elems {
			g := els[i].GetInfoElement()
			if g.ElementId != e.ie.ElementId || g.EnterpriseId != e.ie.EnterpriseId || g.DataType != e.ie.DataType || g.Len != e.ie.Len || g.Name != e.ie.Name {
				report(c01fail{"template-fields", fmt.Sprintf("field %d delivered as %+v, sent %+v", i, *g, *e.ie), c.name})
				return
			}
		}
		for gi, g := range c.groups() {
			size := 20
			for _, r := range g {
				size += len(refcodec.EncodeRecord(t, r))
			}
			_, err := ep.SendSet(c.dataSetOn(pick(gi+ci), id, g, gi))
			if size > cfg.maxMsg {
				if err == nil && size > 65535 {
					report(c01fail{"oversized-sent", fmt.Sprintf("data set of %d bytes was sent", size), c.name})
					return
				}
				if err == nil {
					// the transport took it after all (dtls limit is an estimate): it must then arrive intact
				} else {
					continue
				}
			} else if err != nil {
				report(c01fail{"send-error", fmt.Sprintf("data set #%d (%d records, %d bytes): %v", gi, len(g), size, err), c.name})
				return
			}
			var m *entities.Message
			if cfg.encrypted && cfg.proto == "udp" && size > cfg.maxMsg {
				// DTLS records above the DTLS library's 8192-byte inbound buffer: see known_findings.json
				select {
				case m = <-ch:
					atomic.AddInt64(msgs, 1)
				case <-time.After(1500 * time.Millisecond):
					report(c01fail{"dtls-large-message-lost", fmt.Sprintf("a %d-byte message was accepted by SendSet over DTLS and never delivered by the collector", size), c.name})
					continue
				}
			} else {
				m = recv()
			}
			if m == nil {
				report(c01fail{"not-delivered", fmt.Sprintf("data set #%d (%d records, %d bytes) was sent but the collector delivered nothing within 10 s", gi, len(g), size), c.name})
				return
			}
			set := m.GetSet()
			if m.GetObsDomainID() != domain || set.GetSetType() != entities.Data || len(set.GetRecords()) != len(g) {
				report(c01fail{"record-count", fmt.Sprintf("data set #%d: delivered domain %#x type %d with %d records, sent %d records", gi, m.GetObsDomainID(), set.GetSetType(), len(set.GetRecords()), len(g)), c.name})
				return
			}
			for ri, rec := range set.GetRecords() {
				l := rec.GetOrderedElementList()
				if len(l) != len(c.elems) {
					report(c01fail{"field-count", fmt.Sprintf("record %d has %d fields, sent %d", ri, len(l), len(c.elems)), c.name})
					return
				}
				for fi, e := range c.elems {
					ge := l[fi].GetInfoElement()
					if ge.ElementId != e.ie.ElementId || ge.EnterpriseId != e.ie.EnterpriseId || ge.Name != e.ie.Name {
						report(c01fail{"field-identity", fmt.Sprintf("record %d field %d delivered as %s/%d, sent %s/%d", ri, fi, ge.Name, ge.EnterpriseId, e.ie.Name, e.ie.EnterpriseId), c.name})
						return
					}
					if got, want := common.ImplValue(l[fi]), common.RefValue(e.ie.DataType, g[ri][fi]); got != want {
						report(c01fail{"field-value", fmt.Sprintf("data set #%d record %d field %d (%s): delivered %s, sent %s", gi, ri, fi, e.ie.Name, short([]byte(got)), short([]byte(want))), c.name})
						return
					}
				}
			}
		}
	}
	if phase == 1 && cfg.proto == "tcp" {
		// burst: 300 small data sets are sent before the consumer reads anything (an application that drains
		// GetMsgChan() late); over TCP/TLS every one of them must still arrive, in order
		for _, c := range cases {
			if len(c.records) == 0 || len(refcodec.EncodeRecord(c.template(300), c.records[0])) > 120 || len(refcodec.EncodeRecord(c.template(300), c.records[len(c.records)-1])) > 120 {
				continue
			}
			slot.Update(cfg.name + ", burst with template " + c.name)
			id := ep.NewTemplateID()
			if _, err := ep.SendSet(c.tmplSet(id)); err != nil {
				report(c01fail{"send-error", fmt.Sprintf("burst template: %v", err), c.name})
				return
			}
			if m := recv(); m == nil {
				report(c01fail{"not-delivered", "burst: the template message was not delivered within 10 s", c.name})
				return
			}
			const burst = 300
			pickRec := func(i int) [][]byte {
				if i%2 == 0 {
					return c.records[0]
				}
				return c.records[len(c.records)-1]
			}
			for i := 0; i < burst; i++ {
				if _, err := ep.SendSet(c.dataSet(id, [][][]byte{pickRec(i), pickRec(i / 3)}[:1+i%2], i)); err != nil {
					report(c01fail{"send-error", fmt.Sprintf("burst data set #%d: %v", i, err), c.name})
					return
				}
			}
			time.Sleep(1200 * time.Millisecond) // the consumer is busy elsewhere for more than a second
			for i := 0; i < burst; i++ {
				m := recv()
				if m == nil {
					report(c01fail{"not-delivered", fmt.Sprintf("burst: %d data sets were sent before the consumer started reading; only %d were delivered (the next one not within 10 s)", burst, i), c.name})
					return
				}
				want := [][][]byte{pickRec(i), pickRec(i / 3)}[:1+i%2]
				recs := m.GetSet().GetRecords()
				if len(recs) != len(want) {
					report(c01fail{"record-count", fmt.Sprintf("burst: delivery #%d has %d records, data set #%d was sent with %d (lost, duplicated or reordered)", i, len(recs), i, len(want)), c.name})
					return
				}
				for ri, rec := range recs {
					if len(rec.GetOrderedElementList()) != len(c.elems) {
						report(c01fail{"field-count", fmt.Sprintf("burst: delivery #%d record %d has %d fields, sent %d", i, ri, len(rec.GetOrderedElementList()), len(c.elems)), c.name})
						return
					}
					for fi, e := range c.elems {
						if got, w := common.ImplValue(rec.GetOrderedElementList()[fi]), common.RefValue(e.ie.DataType, want[ri][fi]); got != w {
							report(c01fail{"field-value", fmt.Sprintf("burst: delivery #%d record %d field %d (%s): delivered %s, data set #%d carried %s", i, ri, fi, e.ie.Name, short([]byte(got)), i, short([]byte(w))), c.name})
							return
						}
					}
				}
			}
			break
		}
	}
	ep.CloseConnToCollector()
	if phase == 1 && !(cfg.encrypted && cfg.proto == "udp") && len(cases) > 2 {
		// phase 2: the exporter restarts and numbers its templates from 256 again, in the same
		// observation domain, with a different selection of fields (the collector must replace them)
		phase = 2
		n := len(cases)
		if n > 12 {
			n = 12
		}
		var rev []e2eCase
		for i := n - 1; i >= 0; i-- {
			rev = append(rev, cases[i])
		}
		cases = rev
		ep, err = exporter.InitExportingProcess(ein)
		if err != nil {
			report(c01fail{"exporter-init", fmt.Sprintf("%s (restart): %v", cfg.name, err), ""})
			return
		}
		goto run
	}
	select {
	case <-ch:
		report(c01fail{"extra-delivery", "the collector delivered a message nobody sent", ""})
	case <-time.After(20 * time.Millisecond):
	}
}

func runC01(tier, replay string) int {
	rep := common.NewReporter("C01")
	c01guard = common.NewGuard(24*time.Hour, 8<<30, func(kind, detail string, what interface{}) {
		rep.Report("e2e", kind, fmt.Sprintf("%v: %s", what, detail), what, nil)
		rep.Finish()
		os.Stdout.Sync()
		os.Exit(1)
	})
	if tier == "replay" {
		fmt.Println("C01 replays: re-run the check; failures are identified by transport + template name in the replay file")
		tier = "quick"
	}
	var msgs int64
	var mu sync.Mutex
	seen := map[string]bool{}
	total := 0
	var samples []interface{}
	var perCfg []interface{}
	for _, cfg := range c01Cfgs() {
		cfg := cfg
		cases := e2eCases(tier, cfg.maxMsg, tier == "thorough" && (cfg.name == "tcp/ipv4" || cfg.name == "udp/ipv4" || cfg.name == "tls/ipv4" || cfg.name == "dtls/ipv4"))
		if cfg.encrypted && cfg.proto == "udp" {
			// probes just above the DTLS inbound buffer and well above it
			str := e2eAlphabet()[18]
			for _, n := range []int{8156 - 23, 20000} {
				b := c15pattern(n)
				for i := range b {
					b[i] = 'a' + b[i]%26
				}
				cases = append(cases, e2eCase{elems: []e2eElem{str}, records: [][][]byte{{b}}, name: fmt.Sprintf("dtls-large-probe len=%d", n)})
			}
			// the library's DTLS collector serves a single connection: one session, fewer cases (every arity-1 template, every 5th of the others)
			var f []e2eCase
			for i, c := range cases {
				if len(c.elems) == 1 || i%5 == 0 {
					f = append(f, c)
				}
			}
			cases = f
		}
		total += len(cases)
		samples = append(samples, map[string]interface{}{"transport": cfg.name, "template": cases[len(cases)/2].name, "records": len(cases[len(cases)/2].records)})
		before := atomic.LoadInt64(&msgs)
		nw := runtime.NumCPU()
		var wg sync.WaitGroup
		for w := 0; w < nw; w++ {
			var mine []e2eCase
			for i := w; i < len(cases); i += nw {
				mine = append(mine, cases[i])
			}
			wg.Add(1)
			go func(mine []e2eCase) {
				defer wg.Done()
				c01session(cfg, mine, &msgs, func(f c01fail) {
					mu.Lock()
					defer mu.Unlock()
					k := cfg.name + f.kind + f.caseName
					if seen[k] || len(seen) > 40 {
						return
					}
					seen[k] = true
					if f.kind == "dtls-large-message-lost" {
						if _, known := rep.CheckKnown(f.kind, f.detail); known {
							return
						}
					}
					rep.Report(cfg.name, f.kind, fmt.Sprintf("%s, template [%s]: %s", cfg.name, f.caseName, f.detail), map[string]interface{}{"transport": cfg.name, "template": f.caseName}, nil)
				})
			}(mine)
		}
		wg.Wait()
		perCfg = append(perCfg, map[string]interface{}{"transport": cfg.name, "templates": len(cases), "messages_delivered": atomic.LoadInt64(&msgs) - before})
		fmt.Printf("C01 %s: templates=%d delivered=%d\n", cfg.name, len(cases), atomic.LoadInt64(&msgs)-before)
	}
	fmt.Printf("C01 %s: templates=%d messages delivered and compared=%d violations=%d\n", tier, total, msgs, rep.Violations())
	ev := &common.Evidence{PropertyID: "C01", Tier: tier}
	ev.Coverage = common.Coverage{
		"states": total, "transitions": msgs, "traces_validated_against_impl": msgs, "samples": samples,
		"evaluations": msgs, "distinct_nontrivial": total,
		"rule":       "the C02 input space (every template of arity 1..2, thorough 3, over the 28-element alphabet x boundary value cross products packed into data sets of 1,2,3,... records; message-filling variable-length values; record counts fit-1 and fit; thorough: every registry element) sent by a real ExportingProcess to a real CollectingProcess over tcp, udp, tls and dtls on 127.0.0.1 and [::1] (certificates minted in process), one message in flight, followed by an exporter restart that reuses template ids 256.. with different fields; every delivery on GetMsgChan() is compared with what was handed to SendSet: observation domain, template fields (id, enterprise, type, length, name) in order, record count, every value on its raw bits. distinct_nontrivial = (transport, template) pairs",
		"exhaustive": true, "per_transport": perCfg,
	}
	ev.Assumptions = []string{"sockets, kernel and crypto are real: inputs/configurations are enumerated, schedules are the OS's", "over DTLS the regular cases stay within 8155 bytes per message; larger ones are probed separately (known finding C01-dtls-large-message-lost); one DTLS session carries a reduced case list because the library's DTLS collector serves one connection", "a 10 s delivery deadline turns a lost message into a violation (typical latency 0.1-0.3 ms)"}
	ev.WallS = common.Since(rep.Start)
	ev.Violations = rep.Violations()
	common.WriteEvidence(ev)
	return rep.Finish()
}
