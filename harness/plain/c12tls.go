package main

import (
	"crypto/tls"
	"crypto/x509"
	"encoding/json"
	"fmt"
	"net"
	"os"
	"runtime"
	"sync"
	"time"

	"github.com/vmware/go-ipfix/pkg/collector"
	"github.com/vmware/go-ipfix/pkg/exporter"

	"verifharness/common"
)

func init() { checks["C12tls"] = runC12TLS }

// C12, TLS part. crypto/tls cannot run under the controlled scheduler, so the TLS-specific clause
// ("Stop returns promptly even with clients connected or mid-message ... afterwards no listening socket
// remains") is decided by enumerating every point at which a TLS peer can stall: for every prefix of a
// real ClientHello the peer sends exactly that prefix and then goes silent (or closes), while a healthy
// exporter has a session in progress; Stop must return and the port must be closed.

func clientHello(ca []byte) []byte {
	a, b := net.Pipe()
	roots := x509.NewCertPool()
	roots.AppendCertsFromPEM(ca)
	go func() {
		c := tls.Client(a, &tls.Config{RootCAs: roots, ServerName: "localhost", MinVersion: tls.VersionTLS12})
		c.SetDeadline(time.Now().Add(time.Second))
		c.Handshake()
		a.Close()
	}()
	b.SetDeadline(time.Now().Add(time.Second))
	buf := make([]byte, 4096)
	n, _ := b.Read(buf)
	hello := append([]byte{}, buf[:n]...)
	// a record may arrive in pieces through the pipe: read the rest of the first record
	for len(hello) >= 5 && len(hello) < 5+int(hello[3])<<8+int(hello[4]) {
		n, err := b.Read(buf)
		if err != nil {
			break
		}
		hello = append(hello, buf[:n]...)
	}
	b.Close()
	return hello
}

type c12tlsCase struct {
	Prefix int
	Close  bool // the peer closes after the prefix instead of going silent
}

func c12tlsRun(pki *c01pki, hello []byte, c c12tlsCase) (string, string) {
	cp, err := collector.InitCollectingProcess(collector.CollectorInput{Address: "127.0.0.1:0", Protocol: "tcp", MaxBufferSize: 65535, IsEncrypted: true, ServerCert: pki.cert, ServerKey: pki.key})
	if err != nil {
		return "setup", err.Error()
	}
	go cp.Start()
	addr := waitAddr(cp)
	if addr == "" {
		return "setup", "collector did not start"
	}
	go func() {
		for range cp.GetMsgChan() {
		}
	}()
	// a healthy exporter with a session in progress
	ep, err := exporter.InitExportingProcess(exporter.ExporterInput{CollectorAddress: addr, CollectorProtocol: "tcp", ObservationDomainID: 5,
		TLSClientConfig: &exporter.ExporterTLSClientConfig{ServerName: "localhost", CAData: pki.ca.PEM}})
	if err != nil {
		return "setup", "healthy exporter: " + err.Error()
	}
	set := e2eCase{elems: []e2eElem{{c15ie("sourceTransportPort", 0)}}}.tmplSet(ep.NewTemplateID())
	ep.SendSet(set)
	// the stalling peer
	raw, err := net.Dial("tcp", addr)
	if err != nil {
		return "setup", "raw dial: " + err.Error()
	}
	raw.Write(hello[:c.Prefix])
	if c.Close {
		raw.Close()
	} else {
		defer raw.Close()
	}
	time.Sleep(3 * time.Millisecond) // let the collector pick the connection up
	done := make(chan struct{})
	go func() { cp.Stop(); close(done) }()
	select {
	case <-done:
	case <-time.After(15 * time.Second):
		return "stop-hangs", fmt.Sprintf("Stop() did not return within 15 s with a TLS peer stalled after %d of %d ClientHello bytes (closed=%v) and one healthy session", c.Prefix, len(hello), c.Close)
	}
	ep.CloseConnToCollector()
	for i := 0; i < 200; i++ {
		conn, err := net.DialTimeout("tcp", addr, 200*time.Millisecond)
		if err != nil {
			return "", ""
		}
		conn.Close()
		time.Sleep(5 * time.Millisecond)
	}
	return "socket-leak", "one second after Stop returned the listening port still accepts connections"
}

func runC12TLS(tier, replay string) int {
	rep := common.NewReporter("C12")
	c15register()
	pki := c01PKI()
	hello := clientHello(pki.ca.PEM)
	if len(hello) < 50 {
		fmt.Fprintln(os.Stderr, "C12tls: could not capture a ClientHello")
		return 2
	}
	var cases []c12tlsCase
	step := 1
	if tier != "thorough" {
		step = 4
	}
	for k := 0; k <= len(hello); k += step {
		cases = append(cases, c12tlsCase{k, false})
		if k%8 == 0 {
			cases = append(cases, c12tlsCase{k, true})
		}
	}
	for _, k := range []int{1, 4, 5, 6, len(hello) - 1, len(hello)} {
		cases = append(cases, c12tlsCase{k, false}, c12tlsCase{k, true})
	}
	var mu sync.Mutex
	idx := 0
	infra := 0
	var wg sync.WaitGroup
	for w := 0; w < runtime.NumCPU(); w++ {
		wg.Add(1)
		go func() {
			defer wg.Done()
			for {
				mu.Lock()
				if idx >= len(cases) {
					mu.Unlock()
					return
				}
				c := cases[idx]
				idx++
				mu.Unlock()
				kind, detail := c12tlsRun(pki, hello, c)
				mu.Lock()
				if kind == "setup" {
					infra++
					fmt.Fprintln(os.Stderr, "C12tls setup problem:", detail)
				} else if kind != "" && rep.Violations() < 3 {
					rep.Report("tls-stalled-peer", kind, detail, c, nil)
				}
				mu.Unlock()
			}
		}()
	}
	wg.Wait()
	fmt.Printf("C12 tls-stalled-peer: cases=%d (ClientHello of %d bytes) violations=%d\n", len(cases), len(hello), rep.Violations())
	// fold into the evidence written by the scheduler part of C12
	path := common.VerifDir + "/evidence/C12.json"
	if b, err := os.ReadFile(path); err == nil {
		var ev map[string]interface{}
		if json.Unmarshal(b, &ev) == nil {
			cov, _ := ev["coverage"].(map[string]interface{})
			if cov != nil {
				cov["tls_stalled_peer_cases"] = len(cases)
				cov["tls_note"] = "TLS part (real crypto/tls, free-running): for every enumerated prefix of a real ClientHello a peer sends that prefix and stalls or closes while a healthy TLS exporter is connected; Stop must return and the port must close"
				if v, ok := ev["violations"].(float64); ok {
					ev["violations"] = int(v) + rep.Violations()
				}
				nb, _ := json.MarshalIndent(ev, "", " ")
				os.WriteFile(path, nb, 0o644)
			}
		}
	}
	if infra > 0 {
		return 2
	}
	return rep.Finish()
}
