package main

import (
	"bytes"
	"fmt"
	"net"
	"runtime"
	"strings"
	"time"

	"github.com/vmware/go-ipfix/pkg/entities"
	"github.com/vmware/go-ipfix/pkg/exporter"
	"github.com/vmware/go-ipfix/pkg/registry"

	"verifharness/common"
	"verifharness/refcodec"
	"verifharness/xplore"
)

func init() { checks["C16"] = runC16 }

// element lists
type c16list struct {
	name  string
	names []string
	ents  []uint32
}

var c16lists = []c16list{
	{"empty", nil, nil},
	{"fixed", []string{"sourceTransportPort", "protocolIdentifier", "octetDeltaCount"}, []uint32{0, 0, 0}},
	{"strings", []string{"interfaceName", "sourcePodName", "destinationTransportPort"}, []uint32{0, registry.AntreaEnterpriseID, 0}},
	{"everytype", []string{"protocolIdentifier", "sourceTransportPort", "ingressInterface", "octetDeltaCount", "sourceIPv4Address", "sourceIPv6Address", "sourceMacAddress",
		"interfaceName", "flowStartSeconds", "flowStartMilliseconds", "dataRecordsReliability", "absoluteError", "mibObjectValueInteger", "ipHeaderPacketSection", "sourcePodName", "reverseOctetDeltaCount"},
		[]uint32{0, 0, 0, 0, 0, 0, 0, 0, 0, 0, 0, 0, 0, 0, registry.AntreaEnterpriseID, registry.IANAReversedEnterpriseID}},
	// in data sets the first element carries a value that cannot be encoded for it (an IPv6 address in an
	// ipv4Address element): whatever ends up in those four bytes, the bookkeeping must stay right
	{"unencodable", []string{"sourceIPv4Address", "sourceTransportPort"}, []uint32{0, 0}},
}

const c16unencodable = 4 // index of that list

func c16ies(l c16list) []*entities.InfoElement {
	var out []*entities.InfoElement
	for i, n := range l.names {
		ie, err := registry.GetInfoElement(n, l.ents[i])
		if err != nil {
			panic(err)
		}
		out = append(out, ie)
	}
	return out
}

// one valued element + its reference raw bytes, by type; seq varies the value
func c16value(ie *entities.InfoElement, seq int) (entities.InfoElementWithValue, []byte) {
	be := func(v uint64, n int) []byte {
		b := make([]byte, n)
		for i := 0; i < n; i++ {
			b[i] = byte(v >> (8 * uint(n-1-i)))
		}
		return b
	}
	s := uint64(seq + 1)
	switch ie.DataType {
	case entities.Unsigned8:
		return entities.NewUnsigned8InfoElement(ie, uint8(s*3)), be(s*3&0xff, 1)
	case entities.Unsigned16:
		return entities.NewUnsigned16InfoElement(ie, uint16(s*257)), be(s*257&0xffff, 2)
	case entities.Unsigned32:
		return entities.NewUnsigned32InfoElement(ie, uint32(s*65537)), be(s*65537&0xffffffff, 4)
	case entities.Unsigned64:
		return entities.NewUnsigned64InfoElement(ie, s<<40|s), be(s<<40|s, 8)
	case entities.Signed32:
		return entities.NewSigned32InfoElement(ie, -int32(s)), be(uint64(uint32(-int32(s))), 4)
	case entities.Float64:
		return entities.NewFloat64InfoElement(ie, 1.5), be(0x3ff8000000000000, 8)
	case entities.Boolean:
		return entities.NewBoolInfoElement(ie, seq%2 == 0), []byte{byte(1 + seq%2)}
	case entities.DateTimeSeconds:
		return entities.NewDateTimeSecondsInfoElement(ie, uint32(1700000000+s)), be(1700000000+s, 4)
	case entities.DateTimeMilliseconds:
		return entities.NewDateTimeMillisecondsInfoElement(ie, 1700000000000+s), be(1700000000000+s, 8)
	case entities.Ipv4Address:
		b := []byte{10, 0, byte(s), 1}
		return entities.NewIPAddressInfoElement(ie, net.IP(b)), b
	case entities.Ipv6Address:
		b := make([]byte, 16)
		b[0], b[15] = 0xfd, byte(s)
		return entities.NewIPAddressInfoElement(ie, net.IP(b)), b
	case entities.MacAddress:
		b := []byte{2, 0, 0, 0, 0, byte(s)}
		return entities.NewMacAddressInfoElement(ie, net.HardwareAddr(b)), b
	case entities.String:
		n := 3
		if ie.Name == "sourcePodName" {
			n = 300 // crosses the 255 boundary
		}
		b := bytes.Repeat([]byte{byte('a' + seq%26)}, n)
		return entities.NewStringInfoElement(ie, string(b)), b
	case entities.OctetArray:
		b := bytes.Repeat([]byte{byte(0xc0 + seq)}, 5)
		return entities.NewOctetArrayInfoElement(ie, b), b
	}
	panic(fmt.Sprintf("c16value: type %d (%s)", ie.DataType, ie.Name))
}

type c16op struct {
	name    string
	kind    string // prepare | add | update | reset | failadd
	st      entities.ContentType
	id      uint16
	list    int
	variant int // 0 AddRecord, 1 AddRecordWithExtraElements(0), 2 AddRecordWithExtraElements(2), 3 AddRecordV2
}

func c16Ops() []c16op {
	var ops []c16op
	for _, st := range []entities.ContentType{entities.Template, entities.Data} {
		for _, id := range []uint16{256, 257} {
			tn := map[entities.ContentType]string{entities.Template: "Template", entities.Data: "Data"}[st]
			ops = append(ops, c16op{name: fmt.Sprintf("PrepareSet(%s,%d)", tn, id), kind: "prepare", st: st, id: id})
		}
	}
	vn := []string{"AddRecord", "AddRecordWithExtraElements(0)", "AddRecordWithExtraElements(2)", "AddRecordV2"}
	for li, l := range c16lists {
		for v := 0; v < 4; v++ {
			if li == c16unencodable && v != 0 && v != 3 {
				continue
			}
			ops = append(ops, c16op{name: fmt.Sprintf("%s(%s)", vn[v], l.name), kind: "add", list: li, variant: v})
		}
	}
	ops = append(ops, c16op{name: "UpdateLenInHeader", kind: "update"}, c16op{name: "ResetSet", kind: "reset"},
		c16op{name: "AddRecord(template set, elements carrying values -> refused)", kind: "failadd", list: 1})
	return ops
}

type c16done struct {
	op  c16op
	id  uint16
	st  entities.ContentType
	seq int
}

type c16sys struct {
	ops []c16op
	set entities.Set
	// scratch is the caller's slice, reused between the copying add calls (AddRecord /
	// AddRecordWithExtraElements copy the elements; only AddRecordV2 adopts the slice)
	scratch     []entities.InfoElementWithValue
	sinceReset  []c16done         // operations since the last reset (for the fresh-set differential)
	handedOut   []entities.Record // GetRecords() result obtained before the last reset
	handedBytes [][]byte
	failAdds    []int
	// model
	st         entities.ContentType
	prepared   bool
	id         uint16
	recs       [][]byte
	hdrLenOK   bool // header length field is current
	seq        int
	wild       map[int]int // record index -> leading bytes whose content is not compared (unencodable value)
	handedWild map[int]int
}

func newC16(ops []c16op) *c16sys {
	return &c16sys{ops: ops, set: entities.NewSet(false), st: entities.Template}
}

func (s *c16sys) Close() {}

func (s *c16sys) Apply(opi int) (v *xplore.Violation) {
	defer func() {
		if r := recover(); r != nil {
			v = xplore.V("panic", "%s panicked: %v", s.ops[opi].name, r)
		}
	}()
	op := s.ops[opi]
	switch op.kind {
	case "prepare":
		if err := s.set.PrepareSet(op.st, op.id); err != nil {
			return xplore.V("prepare-error", "%s: %v", op.name, err)
		}
		s.st, s.id, s.prepared = op.st, op.id, true
		s.sinceReset = append(s.sinceReset, c16done{op: op, id: op.id, st: op.st})
	case "reset":
		// what the application was handed before the reset must not change under its feet
		s.handedOut = append([]entities.Record{}, s.set.GetRecords()...)
		s.handedBytes = nil
		s.handedWild = s.wild
		for _, r := range s.recs {
			s.handedBytes = append(s.handedBytes, append([]byte{}, r...))
		}
		s.set.ResetSet()
		s.prepared, s.recs, s.hdrLenOK = false, nil, false
		s.sinceReset = nil
		s.wild = nil
	case "update":
		s.set.UpdateLenInHeader()
		s.hdrLenOK = true
		s.sinceReset = append(s.sinceReset, c16done{op: op})
	case "failadd":
		ies := c16ies(c16lists[op.list])
		var els []entities.InfoElementWithValue
		for _, ie := range ies {
			e, _ := c16value(ie, 1)
			els = append(els, e)
		}
		err := s.set.AddRecord(els, s.id)
		if s.st == entities.Template {
			if err == nil {
				return xplore.V("accepted-valued-template", "%s: a template record took elements carrying values", op.name)
			}
			// refused: the set must be exactly as before (checked below)
		} else {
			if err != nil {
				return xplore.V("add-error", "%s on a data set: %v", op.name, err)
			}
			var raws [][]byte
			var specs []refcodec.FieldSpec
			for _, ie := range ies {
				_, raw := c16value(ie, 1)
				raws = append(raws, raw)
				specs = append(specs, refcodec.FieldSpec{ID: ie.ElementId, PEN: ie.EnterpriseId, Len: ie.Len})
			}
			s.recs = append(s.recs, refcodec.EncodeRecord(refcodec.Template{Fields: specs}, raws))
			s.hdrLenOK = false
		}
		s.failAdds = append(s.failAdds, 1)
	case "add":
		ies := c16ies(c16lists[op.list])
		var els []entities.InfoElementWithValue
		var raws [][]byte
		var specs []refcodec.FieldSpec
		s.seq++
		for _, ie := range ies {
			specs = append(specs, refcodec.FieldSpec{ID: ie.ElementId, PEN: ie.EnterpriseId, Len: ie.Len})
			if s.st == entities.Template {
				e, err := entities.DecodeAndCreateInfoElementWithValue(ie, nil)
				if err != nil {
					return xplore.V("template-element", "cannot build a value-less element for %s: %v", ie.Name, err)
				}
				els = append(els, e)
			} else {
				e, raw := c16value(ie, s.seq)
				if op.list == c16unencodable && ie.Name == "sourceIPv4Address" {
					e = entities.NewIPAddressInfoElement(ie, net.ParseIP("2001:db8::1"))
				}
				els = append(els, e)
				raws = append(raws, raw)
			}
		}
		var err error
		arg := els
		if op.variant != 3 {
			// the copying paths get the caller's reusable scratch slice
			s.scratch = append(s.scratch[:0], els...)
			arg = s.scratch
		}
		switch op.variant {
		case 0:
			err = s.set.AddRecord(arg, s.id)
		case 1:
			err = s.set.AddRecordWithExtraElements(arg, 0, s.id)
		case 2:
			err = s.set.AddRecordWithExtraElements(arg, 2, s.id)
		case 3:
			err = s.set.AddRecordV2(arg, s.id)
		}
		s.sinceReset = append(s.sinceReset, c16done{op: op, id: s.id, st: s.st, seq: s.seq})
		if err != nil {
			return xplore.V("add-error", "%s: %v", op.name, err)
		}
		if s.st == entities.Template {
			s.recs = append(s.recs, refcodec.TemplateBody(refcodec.Template{ID: s.id, Fields: specs}))
		} else {
			s.recs = append(s.recs, refcodec.EncodeRecord(refcodec.Template{Fields: specs}, raws))
			if op.list == c16unencodable {
				if s.wild == nil {
					s.wild = map[int]int{}
				}
				s.wild[len(s.recs)-1] = 4 // the first four bytes hold the unencodable value: not compared
			}
		}
		s.hdrLenOK = false
	}
	return s.lengths(op.name)
}

// lengths: the bookkeeping invariants that can be checked without forcing any record buffer.
func (s *c16sys) lengths(after string) *xplore.Violation {
	want := 4
	for _, r := range s.recs {
		want += len(r)
	}
	recs := s.set.GetRecords()
	if len(recs) != len(s.recs) || int(s.set.GetNumberOfRecords()) != len(s.recs) {
		return xplore.V("record-count", "after %s: the set holds %d records (GetNumberOfRecords %d), expected %d", after, len(recs), s.set.GetNumberOfRecords(), len(s.recs))
	}
	sum := 4
	for i, r := range recs {
		if r.GetRecordLength() != len(s.recs[i]) {
			return xplore.V("record-length", "after %s: record %d reports length %d, its encoding has %d bytes", after, i, r.GetRecordLength(), len(s.recs[i]))
		}
		sum += r.GetRecordLength()
	}
	if s.set.GetSetLength() != sum || sum != want {
		return xplore.V("set-length", "after %s: GetSetLength()=%d, 4+sum of record lengths=%d, bytes to serialise=%d", after, s.set.GetSetLength(), sum, want)
	}
	return nil
}

// Finish runs at the end of every history: byte-level comparison with the reference encoding, with
// a fresh set that replays the operations since the last reset, and of records handed out before it.
func (s *c16sys) Finish() *xplore.Violation {
	if v := s.invariants("the history"); v != nil {
		return v
	}
	// differential: a new set given the operations since the last reset
	fresh := entities.NewSet(false)
	var scratch []entities.InfoElementWithValue
	for _, d := range s.sinceReset {
		switch d.op.kind {
		case "prepare":
			fresh.PrepareSet(d.st, d.id)
		case "update":
			fresh.UpdateLenInHeader()
		case "add":
			var els []entities.InfoElementWithValue
			for _, ie := range c16ies(c16lists[d.op.list]) {
				if d.st == entities.Template {
					e, _ := entities.DecodeAndCreateInfoElementWithValue(ie, nil)
					els = append(els, e)
				} else {
					e, _ := c16value(ie, d.seq)
					if d.op.list == c16unencodable && ie.Name == "sourceIPv4Address" {
						e = entities.NewIPAddressInfoElement(ie, net.ParseIP("2001:db8::1"))
					}
					els = append(els, e)
				}
			}
			arg := els
			if d.op.variant != 3 {
				scratch = append(scratch[:0], els...)
				arg = scratch
			}
			fresh.AddRecordV2(append([]entities.InfoElementWithValue{}, arg...), d.id)
		}
	}
	if len(s.sinceReset) > 0 || len(s.recs) == 0 {
		if !bytes.Equal(fresh.GetHeaderBuffer(), s.set.GetHeaderBuffer()) && len(s.failAdds) == 0 {
			return xplore.V("differs-from-fresh-set", "header buffer %x, a new set given the operations since the last reset has %x", s.set.GetHeaderBuffer(), fresh.GetHeaderBuffer())
		}
		preparedSince := false
		for _, d := range s.sinceReset {
			if d.op.kind == "prepare" {
				preparedSince = true
			}
		}
		if fresh.GetSetType() != s.set.GetSetType() && preparedSince {
			return xplore.V("differs-from-fresh-set", "set type %d, a new set given the same operations has %d", s.set.GetSetType(), fresh.GetSetType())
		}
	}
	for i, r := range s.handedOut {
		if w := s.handedWild[i]; len(r.GetBuffer()) != len(s.handedBytes[i]) || !bytes.Equal(r.GetBuffer()[w:], s.handedBytes[i][w:]) {
			return xplore.V("reset-aliases-old-records", "record %d obtained from GetRecords() before ResetSet now serialises to %x, it was %x (the reset set reuses storage it had handed out)", i, short(r.GetBuffer()), short(s.handedBytes[i]))
		}
	}
	return nil
}

func (s *c16sys) invariants(after string) *xplore.Violation {
	want := 4
	for _, r := range s.recs {
		want += len(r)
	}
	recs := s.set.GetRecords()
	if len(recs) != len(s.recs) || int(s.set.GetNumberOfRecords()) != len(s.recs) {
		return xplore.V("record-count", "after %s: the set holds %d records (GetNumberOfRecords %d), expected %d", after, len(recs), s.set.GetNumberOfRecords(), len(s.recs))
	}
	sum := 4
	for i, r := range recs {
		buf := r.GetBuffer()
		if len(buf) != r.GetRecordLength() {
			return xplore.V("record-length", "after %s: record %d buffer has %d bytes, GetRecordLength()=%d", after, i, len(buf), r.GetRecordLength())
		}
		if w := s.wild[i]; !bytes.Equal(buf[w:], s.recs[i][w:]) {
			return xplore.V("record-bytes", "after %s: record %d serialises to %x, reference %x", after, i, short(buf), short(s.recs[i]))
		}
		sum += r.GetRecordLength()
	}
	if s.set.GetSetLength() != sum || sum != want {
		return xplore.V("set-length", "after %s: GetSetLength()=%d, 4+sum of record lengths=%d, bytes to serialise=%d", after, s.set.GetSetLength(), sum, want)
	}
	if want+16 <= 65535 && s.prepared {
		msg, err := exporter.CreateIPFIXMsg(s.set, 1, 2, time.Unix(3, 0))
		if err != nil {
			return xplore.V("serialise-error", "after %s: CreateIPFIXMsg: %v", after, err)
		}
		if len(msg) != 16+want {
			return xplore.V("serialised-length", "after %s: %d bytes serialised for the set, GetSetLength()=%d", after, len(msg)-16, s.set.GetSetLength())
		}
		wantID := s.id
		if s.st == entities.Template {
			wantID = 2
		}
		if got := uint16(msg[16])<<8 | uint16(msg[17]); got != wantID {
			return xplore.V("set-id", "after %s: set id %d on the wire, expected %d", after, got, wantID)
		}
		if s.hdrLenOK {
			if got := int(msg[18])<<8 | int(msg[19]); got != want {
				return xplore.V("header-length", "after %s: set header length field %d, set has %d bytes", after, got, want)
			}
		}
		off := 20
		for i, r := range s.recs {
			if w := s.wild[i]; !bytes.Equal(msg[off+w:off+len(r)], r[w:]) {
				return xplore.V("serialised-bytes", "after %s: record %d differs in the serialised message", after, i)
			}
			off += len(r)
		}
	}
	if !s.prepared {
		if s.set.GetSetType() != entities.Undefined && len(s.recs) == 0 && after == "ResetSet" {
			return xplore.V("reset-type", "after ResetSet the set type is %d, a reset set must be Undefined until prepared", s.set.GetSetType())
		}
	}
	return nil
}

func (s *c16sys) Canon() string {
	var sb strings.Builder
	fmt.Fprintf(&sb, "t=%d len=%d hdr=%x;", s.set.GetSetType(), s.set.GetSetLength(), s.set.GetHeaderBuffer())
	for _, r := range s.set.GetRecords() {
		fmt.Fprintf(&sb, "%x|", r.GetBuffer())
	}
	return sb.String()
}

func runC16(tier, replay string) int {
	rep := common.NewReporter("C16")
	ops := c16Ops()
	enabled := func(h []int, op int) bool {
		k := ops[op].kind
		if k != "add" && k != "failadd" {
			return true
		}
		prepared := false
		for _, o := range h {
			switch ops[o].kind {
			case "prepare":
				prepared = true
			case "reset":
				prepared = false
			}
		}
		return prepared
	}
	hd, sd := 5, 0
	if tier == "thorough" {
		hd, sd = 6, 0
	}
	cfg := &xplore.Config{Name: "set-builder", NumOps: len(ops), OpName: func(i int) string { return ops[i].name },
		New: func() xplore.Sys { return newC16(ops) }, Enabled: enabled, HistDepth: hd, StateDepth: sd, Workers: runtime.NumCPU(),
		Known: func(v *xplore.Violation, h []int) (string, bool) { return rep.CheckKnown(v.Kind, v.Detail) }}
	if tier == "replay" {
		r, err := common.ReadReplay(replay)
		if err != nil {
			fmt.Println(err)
			return 2
		}
		var tr struct{ Hist []int }
		b, _ := jsonMarshal(r.Trace)
		jsonUnmarshal(b, &tr)
		for i, o := range tr.Hist {
			fmt.Printf("  step %d: %s\n", i, ops[o].name)
		}
		if step, v := cfg.Replay(tr.Hist); v != nil {
			fmt.Printf("replay: violation at step %d: %s\nVIOLATION property=C16 replay=%s\n", step, v.Error(), replay)
			return 1
		}
		fmt.Println("replay: no violation")
		return 0
	}
	res := xplore.Run(cfg)
	for _, f := range res.Violations {
		rep.Report(cfg.Name, f.V.Kind, f.V.Detail, map[string]interface{}{"hist": f.Hist, "ops": f.Ops}, nil)
	}
	fmt.Printf("C16 %s: histories=%d (depth %d) transitions=%d violations=%d caps=%v\n", tier, res.Histories, res.HistDepthDone, res.HistTransitions, len(res.Violations), res.CapsHit)
	var samples []interface{}
	for _, s := range res.Samples {
		samples = append(samples, s)
	}
	if len(samples) == 0 {
		samples = append(samples, "none")
	}
	ev := &common.Evidence{PropertyID: "C16", Tier: tier}
	ev.Coverage = common.Coverage{
		"states": res.Histories, "transitions": res.HistTransitions, "traces_validated_against_impl": res.Histories, "samples": samples,
		"evaluations": res.Histories, "distinct_nontrivial": res.Histories,
		"rule":       "every well-formed history (a prepare precedes adds; anything after a reset needs a new prepare) up to hist_depth over 25 operations {PrepareSet(Template|Data, 256|257), the four add variants (AddRecord, AddRecordWithExtraElements(0|2), AddRecordV2) x four element lists (empty, fixed, strings incl. a 300-byte one, one element of every encodable type), two adds of a list whose first value cannot be encoded for its element (lengths checked, those bytes not compared), UpdateLenInHeader, ResetSet, an add that must be refused (valued elements into a template set)} on a real encoding set; after every operation: GetSetLength = 4 + sum GetRecordLength = bytes CreateIPFIXMsg serialises - 16, every record buffer equals its reported length and the independent refcodec encoding, the header length field is right after UpdateLenInHeader; because every add variant and every post-reset history is compared with the same reference bytes, the add paths are byte-identical and a reset set behaves like a new one. states = histories executed (distinct by construction)",
		"exhaustive": res.HistExhaustive, "hist_depth": res.HistDepthDone,
	}
	ev.WallS = common.Since(rep.Start)
	ev.Violations = rep.Violations()
	common.WriteEvidence(ev)
	return rep.Finish()
}
