package main

import (
	"bytes"
	"fmt"
	"math"
	"net"
	"sort"

	"github.com/vmware/go-ipfix/pkg/entities"
	"github.com/vmware/go-ipfix/pkg/registry"

	"verifharness/refcodec"
)

// Shared generator for C01 / C02: templates over an element alphabet, boundary value vectors, record
// counts. Every value is produced twice: as a library element and as reference raw bytes.

type e2eElem struct {
	ie *entities.InfoElement
}

func (e e2eElem) spec() refcodec.FieldSpec {
	return refcodec.FieldSpec{ID: e.ie.ElementId, PEN: e.ie.EnterpriseId, Len: e.ie.Len}
}

// e2eAlphabet: for every supported type one representative from each registry that has one, plus
// user-registered elements for the types the shipped registries lack.
func e2eAlphabet() []e2eElem {
	c15register()
	pick := [][2]interface{}{
		{"protocolIdentifier", uint32(0)}, {"flowType", registry.AntreaEnterpriseID}, // u8
		{"sourceTransportPort", uint32(0)}, {"destinationServicePort", registry.AntreaEnterpriseID}, {"sourceTransportPort", registry.IANAReversedEnterpriseID}, // u16
		{"ingressInterface", uint32(0)},                                                                                                     // u32
		{"octetDeltaCount", uint32(0)}, {"octetDeltaCount", registry.IANAReversedEnterpriseID}, {"throughput", registry.AntreaEnterpriseID}, // u64
		{"verifSigned8", uint32(verifPEN)}, {"verifSigned16", uint32(verifPEN)},
		{"mibObjectValueInteger", uint32(0)}, {"ingressNetworkPolicyRulePriority", registry.AntreaEnterpriseID}, // i32
		{"verifSigned64", uint32(verifPEN)}, {"verifFloat32", uint32(verifPEN)},
		{"absoluteError", uint32(0)},          // f64
		{"dataRecordsReliability", uint32(0)}, // bool
		{"sourceMacAddress", uint32(0)},
		{"interfaceName", uint32(0)}, {"sourcePodName", registry.AntreaEnterpriseID}, // string
		{"flowStartSeconds", uint32(0)}, {"flowEndSecondsFromSourceNode", registry.AntreaEnterpriseID}, // dts
		{"flowStartMilliseconds", uint32(0)},
		{"sourceIPv4Address", uint32(0)}, {"destinationClusterIPv4", registry.AntreaEnterpriseID},
		{"sourceIPv6Address", uint32(0)},
		{"paddingOctets", uint32(0)}, // variable octet array - and an element like any other to a collector
		{"verifOctets4", uint32(verifPEN)},   // fixed octet array
	}
	var out []e2eElem
	for _, p := range pick {
		name := p[0].(string)
		ent := p[1].(uint32)
		if ent == registry.IANAReversedEnterpriseID {
			name = "reverse" + string(bytes.ToUpper([]byte(name[:1]))) + name[1:]
		}
		ie, err := registry.GetInfoElement(name, ent)
		if err != nil {
			panic(err)
		}
		out = append(out, e2eElem{ie})
	}
	return out
}

// e2eValue builds (library element, raw reference bytes) for a raw value of the element's type.
func e2eValue(ie *entities.InfoElement, raw []byte) entities.InfoElementWithValue {
	u := func() uint64 {
		var v uint64
		for _, b := range raw {
			v = v<<8 | uint64(b)
		}
		return v
	}
	switch ie.DataType {
	case entities.Unsigned8:
		return entities.NewUnsigned8InfoElement(ie, raw[0])
	case entities.Unsigned16:
		return entities.NewUnsigned16InfoElement(ie, uint16(u()))
	case entities.Unsigned32:
		return entities.NewUnsigned32InfoElement(ie, uint32(u()))
	case entities.Unsigned64:
		return entities.NewUnsigned64InfoElement(ie, u())
	case entities.Signed8:
		return entities.NewSigned8InfoElement(ie, int8(raw[0]))
	case entities.Signed16:
		return entities.NewSigned16InfoElement(ie, int16(u()))
	case entities.Signed32:
		return entities.NewSigned32InfoElement(ie, int32(u()))
	case entities.Signed64:
		return entities.NewSigned64InfoElement(ie, int64(u()))
	case entities.Float32:
		return entities.NewFloat32InfoElement(ie, math.Float32frombits(uint32(u())))
	case entities.Float64:
		return entities.NewFloat64InfoElement(ie, math.Float64frombits(u()))
	case entities.Boolean:
		return entities.NewBoolInfoElement(ie, raw[0] == 1)
	case entities.MacAddress:
		return entities.NewMacAddressInfoElement(ie, net.HardwareAddr(append([]byte{}, raw...)))
	case entities.String:
		return entities.NewStringInfoElement(ie, string(raw))
	case entities.DateTimeSeconds:
		return entities.NewDateTimeSecondsInfoElement(ie, uint32(u()))
	case entities.DateTimeMilliseconds:
		return entities.NewDateTimeMillisecondsInfoElement(ie, u())
	case entities.Ipv4Address, entities.Ipv6Address:
		return entities.NewIPAddressInfoElement(ie, net.IP(append([]byte{}, raw...)))
	case entities.OctetArray:
		return entities.NewOctetArrayInfoElement(ie, append([]byte{}, raw...))
	}
	panic(fmt.Sprintf("e2eValue: type %d", ie.DataType))
}

// e2eValues: boundary raw values for an element. small=true gives at most 4 (for cross products).
func e2eValues(ie *entities.InfoElement, small bool) [][]byte {
	w := fixedWidthOf(ie)
	var out [][]byte
	add := func(b []byte) { out = append(out, b) }
	switch ie.DataType {
	case entities.Boolean:
		return [][]byte{{1}, {2}}
	case entities.String, entities.OctetArray:
		if ie.Len != entities.VariableLength {
			return [][]byte{make([]byte, w), bytes.Repeat([]byte{0xff}, w), c15pattern(w + 2)[:w]}
		}
		lens := []int{0, 1, 254, 255, 256}
		if small {
			lens = []int{0, 3, 255}
		}
		for _, n := range lens {
			b := c15pattern(n)
			if ie.DataType == entities.String {
				for i := range b {
					b[i] = 'a' + b[i]%26
				}
			}
			add(b)
		}
		if ie.DataType == entities.String {
			// a Go string is any byte sequence: bytes that are not UTF-8 travel unchanged too
			add([]byte{'a', 0xff, 0xc3, 'z', 0x80})
			add([]byte{'e', 't', 'h', '0', 0, 0}) // trailing NUL octets are part of the value
		}
		return out
	case entities.Float32:
		for _, bits := range []uint32{0, 0x80000000, 0x7f800000, 0xff800000, 0x7fc00000, 0x7f800001, 0x00000001, 0x3f800000, 0x7f7fffff} {
			add(be(uint64(bits), 4))
		}
	case entities.Float64:
		for _, bits := range []uint64{0, 1 << 63, 0x7ff0000000000000, 0xfff0000000000000, 0x7ff8000000000000, 0x7ff0000000000001, 1, 0x3ff0000000000000, 0x7fefffffffffffff} {
			add(be(bits, 8))
		}
	default:
		add(make([]byte, w))
		add(bytes.Repeat([]byte{0xff}, w))
		if ie.DataType == entities.Ipv6Address {
			// an IPv4-mapped address is an ordinary ipv6Address value
			add([]byte{0, 0, 0, 0, 0, 0, 0, 0, 0, 0, 0xff, 0xff, 10, 1, 2, 3})
		}
		one := make([]byte, w)
		one[w-1] = 1
		add(one)
		sb := make([]byte, w) // sign boundary
		sb[0] = 0x80
		add(sb)
		sb2 := bytes.Repeat([]byte{0xff}, w)
		sb2[0] = 0x7f
		add(sb2)
		cnt := make([]byte, w)
		for i := range cnt {
			cnt[i] = byte(i + 1)
		}
		add(cnt)
	}
	if small && len(out) > 4 {
		out = out[:4]
	}
	return out
}

func fixedWidthOf(ie *entities.InfoElement) int {
	if ie.Len == entities.VariableLength {
		return 0
	}
	return int(ie.Len)
}

type e2eCase struct {
	elems   []e2eElem
	records [][][]byte // records -> fields -> raw
	name    string
	single  bool // send all records in one data set (record-count boundary cases)
}

func (c e2eCase) template(id uint16) refcodec.Template {
	t := refcodec.Template{ID: id}
	for _, e := range c.elems {
		t.Fields = append(t.Fields, e.spec())
	}
	return t
}

// e2eReuse returns the set to build on: a fresh one, or (every other time, as long-lived exporters do) the
// session's own set after ResetSet.
func e2eReuse(reuse entities.Set) entities.Set {
	if reuse == nil {
		return entities.NewSet(false)
	}
	reuse.ResetSet()
	return reuse
}

func (c e2eCase) tmplSet(id uint16) entities.Set { return c.tmplSetOn(nil, id) }

func (c e2eCase) tmplSetOn(reuse entities.Set, id uint16) entities.Set {
	set := e2eReuse(reuse)
	if err := set.PrepareSet(entities.Template, id); err != nil {
		panic(err)
	}
	els := make([]entities.InfoElementWithValue, len(c.elems))
	for i, e := range c.elems {
		x, err := entities.DecodeAndCreateInfoElementWithValue(e.ie, nil)
		if err != nil {
			panic(err)
		}
		els[i] = x
	}
	if err := set.AddRecord(els, id); err != nil {
		panic(err)
	}
	return set
}

func (c e2eCase) dataSet(id uint16, recs [][][]byte, variant int) entities.Set {
	return c.dataSetOn(nil, id, recs, variant)
}

func (c e2eCase) dataSetOn(reuse entities.Set, id uint16, recs [][][]byte, variant int) entities.Set {
	set := e2eReuse(reuse)
	if err := set.PrepareSet(entities.Data, id); err != nil {
		panic(err)
	}
	scratch := make([]entities.InfoElementWithValue, len(c.elems)) // AddRecord copies: its caller may refill one slice for every record
	for _, r := range recs {
		els := make([]entities.InfoElementWithValue, len(c.elems))
		if variant%2 == 0 {
			els = scratch
		}
		for i, e := range c.elems {
			els[i] = e2eValue(e.ie, r[i])
		}
		var err error
		if variant%2 == 0 {
			err = set.AddRecord(els, id)
		} else {
			err = set.AddRecordV2(els, id)
		}
		if err != nil {
			panic(err)
		}
	}
	return set
}

// groups splits the case's records into data sets of 1, 2, 3, ... records.
func (c e2eCase) groups() [][][][]byte {
	if c.single {
		return [][][][]byte{c.records}
	}
	var out [][][][]byte
	i, n := 0, 1
	for i < len(c.records) {
		j := i + n
		if j > len(c.records) {
			j = len(c.records)
		}
		out = append(out, c.records[i:j])
		i = j
		n++
	}
	return out
}

func e2eName(elems []e2eElem) string {
	s := ""
	for i, e := range elems {
		if i > 0 {
			s += ","
		}
		s += fmt.Sprintf("%s/%d", e.ie.Name, e.ie.EnterpriseId)
	}
	return s
}

// e2eCases enumerates the input space for a tier. maxMsg bounds the message size (datagram limit on udp).
func e2eCases(tier string, maxMsg int, fullRegistry bool) []e2eCase {
	alpha := e2eAlphabet()
	var cases []e2eCase
	maxAr := 2
	if tier == "thorough" {
		maxAr = 3
	}
	var gen func(prefix []e2eElem, ar int)
	gen = func(prefix []e2eElem, ar int) {
		if len(prefix) == ar {
			// cross product of small value sets
			sets := make([][][]byte, ar)
			for i, e := range prefix {
				sets[i] = e2eValues(e.ie, ar > 1)
			}
			var recs [][][]byte
			idx := make([]int, ar)
			for {
				r := make([][]byte, ar)
				for i := range r {
					r[i] = sets[i][idx[i]]
				}
				recs = append(recs, r)
				k := ar - 1
				for k >= 0 {
					idx[k]++
					if idx[k] < len(sets[k]) {
						break
					}
					idx[k] = 0
					k--
				}
				if k < 0 {
					break
				}
			}
			cases = append(cases, e2eCase{elems: append([]e2eElem{}, prefix...), records: recs, name: e2eName(prefix)})
			return
		}
		for _, e := range alpha {
			gen(append(prefix, e), ar)
		}
	}
	for ar := 1; ar <= maxAr; ar++ {
		gen(nil, ar)
	}
	// variable-length values that fill a whole message
	for _, e := range alpha {
		if e.ie.Len != entities.VariableLength {
			continue
		}
		for _, n := range []int{maxMsg - 20 - 3 - 1, maxMsg - 20 - 3, maxMsg - 20 - 3 + 1, maxMsg - 20 - 3 + 16} { // one less than fits, the largest that fits, one and sixteen too many (must be refused)
			b := c15pattern(n)
			if e.ie.DataType == entities.String {
				for i := range b {
					b[i] = 'a' + b[i]%26
				}
			}
			cases = append(cases, e2eCase{elems: []e2eElem{e}, records: [][][]byte{{b}}, name: fmt.Sprintf("%s len=%d", e2eName([]e2eElem{e}), n)})
		}
	}
	// record counts fit-1 and fit for fixed-width arity-1 templates (every 4th element) and one arity-2
	for i, e := range alpha {
		if e.ie.Len == entities.VariableLength || e.ie.Len == 0 || i%4 != 0 {
			continue
		}
		w := int(e.ie.Len)
		fit := (maxMsg - 20) / w
		for _, n := range []int{fit - 1, fit} {
			vals := e2eValues(e.ie, false)
			recs := make([][][]byte, n)
			for r := range recs {
				recs[r] = [][]byte{vals[r%len(vals)]}
			}
			cases = append(cases, e2eCase{elems: []e2eElem{e}, records: recs, single: true, name: fmt.Sprintf("%s x%d records in one set (fit=%d)", e2eName([]e2eElem{e}), n, fit)})
		}
		// and one set just beyond 1024 records (a scatter-gather write cannot carry it in one call)
		if i == 0 {
			vals := e2eValues(e.ie, false)
			recs := make([][][]byte, 1100)
			for r := range recs {
				recs[r] = [][]byte{vals[r%len(vals)]}
			}
			cases = append(cases, e2eCase{elems: []e2eElem{e}, records: recs, single: true, name: fmt.Sprintf("%s x1100 records in one set", e2eName([]e2eElem{e}))})
		}
	}
	if fullRegistry {
		// arity-1 template of every registry element of a supported type
		seen := map[string]bool{}
		var all []*entities.InfoElement
		for _, ent := range []uint32{0, registry.IANAReversedEnterpriseID, registry.AntreaEnterpriseID} {
			for id := 0; id < 600; id++ {
				ie, err := registry.GetInfoElementFromID(uint16(id), ent)
				if err != nil || ie == nil {
					continue
				}
				k := fmt.Sprintf("%d/%d", ent, id)
				if seen[k] {
					continue
				}
				seen[k] = true
				all = append(all, ie)
			}
		}
		sort.Slice(all, func(i, j int) bool {
			if all[i].EnterpriseId != all[j].EnterpriseId {
				return all[i].EnterpriseId < all[j].EnterpriseId
			}
			return all[i].ElementId < all[j].ElementId
		})
		for _, ie := range all {
			switch ie.DataType {
			case entities.DateTimeMicroseconds, entities.DateTimeNanoseconds, entities.BasicList, entities.SubTemplateList, entities.SubTemplateMultiList, entities.InvalidDataType:
				continue
			}
			if ie.Len == 0 {
				continue
			}
			e := e2eElem{ie}
			var recs [][][]byte
			for _, v := range e2eValues(ie, false) {
				recs = append(recs, [][]byte{v})
			}
			cases = append(cases, e2eCase{elems: []e2eElem{e}, records: recs, name: "registry:" + e2eName([]e2eElem{e})})
		}
	}
	return cases
}
