// Command plain hosts the checks that run on the unmodified packages plus the injected hook files.
package main

import (
	"encoding/json"
	"flag"
	"fmt"
	"os"

	"k8s.io/klog/v2"

	"github.com/vmware/go-ipfix/pkg/registry"

	"verifharness/colmodel"
)

type checkFn func(tier string, replay string) int

var checks = map[string]checkFn{}

func main() {
	if len(os.Args) < 3 {
		fmt.Fprintln(os.Stderr, "usage: plain <Cnn> quick|thorough | plain <Cnn> --replay <file>")
		os.Exit(2)
	}
	// silence klog
	fs := flag.NewFlagSet("klog", flag.ContinueOnError)
	klog.InitFlags(fs)
	fs.Set("logtostderr", "false")
	fs.Set("alsologtostderr", "false")
	fs.Set("stderrthreshold", "FATAL")
	klog.SetOutput(discard{})
	klog.LogToStderr(false)
	registry.LoadRegistry()
	c15register()
	colmodel.SnapshotRegistry([]uint32{0, registry.IANAReversedEnterpriseID, registry.AntreaEnterpriseID, verifPEN})

	id := os.Args[1]
	fn, ok := checks[id]
	if !ok {
		fmt.Fprintf(os.Stderr, "unknown check %s\n", id)
		os.Exit(2)
	}
	tier, replay := os.Args[2], ""
	if tier == "--replay" {
		if len(os.Args) < 4 {
			fmt.Fprintln(os.Stderr, "--replay needs a file")
			os.Exit(2)
		}
		replay = os.Args[3]
		tier = "replay"
	}
	os.Exit(fn(tier, replay))
}

type discard struct{}

func (discard) Write(p []byte) (int, error) { return len(p), nil }

func jsonMarshal(v interface{}) ([]byte, error)   { return json.Marshal(v) }
func jsonUnmarshal(b []byte, v interface{}) error { return json.Unmarshal(b, v) }

func short(b []byte) []byte {
	if len(b) > 24 {
		return b[:24]
	}
	return b
}
