package main

import (
	"encoding/hex"
	"encoding/json"
	"fmt"
	"runtime"
	"sync"
	"sync/atomic"

	"github.com/vmware/go-ipfix/pkg/collector"
	"github.com/vmware/go-ipfix/pkg/entities"

	"verifharness/colcheck"
	"verifharness/colmodel"
	"verifharness/common"
	"verifharness/refcodec"
	"verifharness/xplore"
)

func init() { checks["C17"] = runC17 }

// element alphabet: known fixed, known variable, five kinds of unknown
var c17alpha = []struct {
	name string
	f    refcodec.FieldSpec
}{
	{"K_u16", refcodec.FieldSpec{ID: 7, Len: 2}},
	{"K_str", refcodec.FieldSpec{ID: 82, Len: 65535}},
	{"K_oct", refcodec.FieldSpec{ID: 313, Len: 65535}}, // ipHeaderPacketSection: a *known* element of the type unknown ones are delivered as
	{"K_user", refcodec.FieldSpec{ID: 2, PEN: verifPEN, Len: 2}}, // verifSigned16: known through a registry the application added
	{"U_iana_fixed3", refcodec.FieldSpec{ID: 999, Len: 3}},
	{"U_iana_var", refcodec.FieldSpec{ID: 998, Len: 65535}},
	{"U_ent_fixed5", refcodec.FieldSpec{ID: 77, PEN: 4242, Len: 5}},
	{"U_ent_var", refcodec.FieldSpec{ID: 78, PEN: 4242, Len: 65535}},
	{"U_unknownid_in_antrea", refcodec.FieldSpec{ID: 999, PEN: 56506, Len: 2}},
}

var c17varLens = []int{0, 1, 254, 255, 300}
var c17fill = []byte{0x00, 0xa5, 0xff}

type c17case struct {
	Tmpl    []int // indices into c17alpha
	LenRot  int
	Records int
	Mode    colmodel.Mode
	Prior   bool // a valid all-known template with the same id was accepted before
	Other   bool // another template (id 301) announced the same unknown elements with different widths before
	Pad     bool // the data set ends with set padding: min(4, shortest possible record - 1) zero bytes
}

func c17build(c c17case) (tmsg, dmsg []byte, names []string) {
	h := refcodec.Header{ExportTime: 5, Seq: 1, Domain: 3}
	t := refcodec.Template{ID: 300}
	for _, i := range c.Tmpl {
		t.Fields = append(t.Fields, c17alpha[i].f)
		names = append(names, c17alpha[i].name)
	}
	var recs [][][]byte
	for r := 0; r < c.Records; r++ {
		var vals [][]byte
		nv := 0
		for fi, f := range t.Fields {
			w := int(f.Len)
			if f.Len == refcodec.VarLen {
				w = c17varLens[(nv+c.LenRot+r)%len(c17varLens)]
				nv++
			}
			b := make([]byte, w)
			for k := range b {
				b[k] = c17fill[(fi+r+k)%3] ^ byte(k*7)
			}
			if w == 2 || w == 3 || w == 5 {
				for k := range b {
					b[k] = c17fill[(fi+r+c.LenRot)%3]
				}
			}
			vals = append(vals, b)
		}
		recs = append(recs, vals)
	}
	if c.Pad {
		min := 0
		for _, f := range t.Fields {
			if f.Len == refcodec.VarLen {
				min++
			} else {
				min += int(f.Len)
			}
		}
		pad := min - 1
		if pad > 4 {
			pad = 4
		}
		var body []byte
		for _, r := range recs {
			body = append(body, refcodec.EncodeRecord(t, r)...)
		}
		return refcodec.TemplateMsg(h, t), refcodec.Msg(h, t.ID, append(body, make([]byte, pad)...)), names
	}
	return refcodec.TemplateMsg(h, t), refcodec.DataMsg(h, t, recs), names
}

func c17run(c c17case) *xplore.Violation {
	tmsg, dmsg, _ := c17build(c)
	cp, err := collector.VerifInitCollectingProcess(collector.CollectorInput{Address: "127.0.0.1:0", Protocol: "tcp", MaxBufferSize: 65535, DecodingMode: colcheck.ModeOf(c.Mode)}, nullClock{})
	if err != nil {
		panic(err)
	}
	ch := make(chan *entities.Message, 4)
	cp.VerifSetMsgChan(ch)
	// a second collecting process with another decoding mode, created afterwards: the mode is a property of
	// each collecting process, not of the package
	otherMode := colmodel.Strict
	if c.Mode == colmodel.Strict {
		otherMode = colmodel.Keep
	}
	if _, err := collector.VerifInitCollectingProcess(collector.CollectorInput{Address: "127.0.0.1:0", Protocol: "udp", MaxBufferSize: 65535, DecodingMode: colcheck.ModeOf(otherMode)}, nullClock{}); err != nil {
		panic(err)
	}
	model := colmodel.New(c.Mode)
	step := func(what string, m []byte) (v *xplore.Violation) {
		defer func() {
			if r := recover(); r != nil {
				v = xplore.V("panic", "%s: decoding panicked: %v", what, r)
			}
		}()
		exp := model.Message(m)
		msg, err := cp.VerifDecodePacket(append([]byte{}, m...), "10.0.0.1:4739")
		select {
		case <-ch:
		default:
		}
		if v := colcheck.Judge(c.Mode, exp, msg, err); v != nil {
			v.Detail = what + ": " + v.Detail
			return v
		}
		ic, _ := colcheck.ImplCanon(cp.VerifTemplates())
		if ic != model.Canon() && ic != model.CanonReading(true) {
			return xplore.V("store-mismatch", "%s: template table %s, model %s", what, ic, model.Canon())
		}
		return nil
	}
	if c.Other {
		other := refcodec.TemplateMsg(refcodec.Header{ExportTime: 3, Seq: 0, Domain: 3}, refcodec.Template{ID: 301, Fields: []refcodec.FieldSpec{
			{ID: 999, Len: 65535}, {ID: 998, Len: 4}, {ID: 77, PEN: 4242, Len: 65535}, {ID: 78, PEN: 4242, Len: 6}, {ID: 999, PEN: 56506, Len: 7}}})
		if v := step("other template", other); v != nil {
			return v
		}
	}
	if c.Prior {
		// an earlier, valid definition of the same template id (its records are 6 bytes: u16, u32)
		prior := refcodec.TemplateMsg(refcodec.Header{ExportTime: 4, Seq: 0, Domain: 3}, refcodec.Template{ID: 300, Fields: []refcodec.FieldSpec{{ID: 7, Len: 2}, {ID: 10, Len: 4}}})
		if v := step("prior template", prior); v != nil {
			return v
		}
	}
	if v := step("template", tmsg); v != nil {
		return v
	}
	return step("data", dmsg)
}

// c17guard: a decoder that loops or allocates without end on one of the cases becomes a violation naming it.
func c17guard(rep *common.Reporter, replay string) *common.Guard {
	return common.ReportingGuard(rep, replay, func(what interface{}) (string, string, interface{}) {
		c := what.(c17case)
		_, _, names := c17build(c)
		return c.Mode.String(), fmt.Sprintf("template %v lenRot=%d records=%d mode=%s: decoding does not terminate promptly with bounded memory", names, c.LenRot, c.Records, c.Mode), c
	})
}

func runC17(tier, replay string) int {
	rep := common.NewReporter("C17")
	if tier == "replay" {
		r, err := common.ReadReplay(replay)
		if err != nil {
			fmt.Println(err)
			return 2
		}
		var c c17case
		b, _ := json.Marshal(r.Trace)
		json.Unmarshal(b, &c)
		tm, dm, names := c17build(c)
		fmt.Printf("mode=%s template=%v\n template message %s\n data message %s\n", c.Mode, names, hex.EncodeToString(tm), hex.EncodeToString(dm[:min(len(dm), 80)]))
		defer c17guard(rep, replay).Enter(c).Leave()
		if v := c17run(c); v != nil {
			fmt.Printf("replay: %s\nVIOLATION property=C17 replay=%s\n", v.Error(), replay)
			return 1
		}
		fmt.Println("replay: no violation")
		return 0
	}
	maxAr := 4
	if tier == "thorough" {
		maxAr = 5
	}
	var cases []c17case
	var gen func(prefix []int, ar int)
	gen = func(prefix []int, ar int) {
		if len(prefix) == ar {
			nvar := 0
			for _, i := range prefix {
				if c17alpha[i].f.Len == refcodec.VarLen {
					nvar++
				}
			}
			rots := 1
			if nvar > 0 {
				rots = len(c17varLens)
			}
			for rot := 0; rot < rots; rot++ {
				for _, nrec := range []int{1, 2} {
					for _, m := range []colmodel.Mode{colmodel.Strict, colmodel.Keep, colmodel.Drop} {
						cases = append(cases, c17case{append([]int{}, prefix...), rot, nrec, m, false, false, false})
						if rot == 0 {
							cases = append(cases, c17case{append([]int{}, prefix...), rot, nrec, m, false, false, true})
						}
						if nrec == 1 && rot == 0 {
							cases = append(cases, c17case{append([]int{}, prefix...), rot, nrec, m, true, false, false})
						}
						if nrec == 1 && rot <= 1 && m != colmodel.Strict {
							cases = append(cases, c17case{append([]int{}, prefix...), rot, nrec, m, false, true, false})
						}
					}
				}
			}
			return
		}
		for i := range c17alpha {
			gen(append(prefix, i), ar)
		}
	}
	for ar := 1; ar <= maxAr; ar++ {
		gen(nil, ar)
	}
	var idx int64 = -1
	var wg sync.WaitGroup
	var accepted, rejected int64
	guard := c17guard(rep, "")
	tmplSeen := map[string]bool{}
	var mu sync.Mutex
	for w := 0; w < runtime.NumCPU(); w++ {
		wg.Add(1)
		go func() {
			defer wg.Done()
			for {
				i := atomic.AddInt64(&idx, 1)
				if int(i) >= len(cases) {
					return
				}
				c := cases[i]
				slot := guard.Enter(c)
				v := c17run(c)
				slot.Leave()
				if v != nil {
					_, _, names := c17build(c)
					rep.Report(c.Mode.String(), v.Kind, fmt.Sprintf("template %v lenRot=%d records=%d mode=%s: %s", names, c.LenRot, c.Records, c.Mode, v.Detail), c, nil)
				}
				hasU := false
				for _, t := range c.Tmpl {
					if t >= 4 {
						hasU = true
					}
				}
				if c.Mode == colmodel.Strict && hasU {
					atomic.AddInt64(&rejected, 1)
				} else {
					atomic.AddInt64(&accepted, 1)
				}
				mu.Lock()
				tmplSeen[fmt.Sprint(c.Tmpl)] = true
				mu.Unlock()
			}
		}()
	}
	wg.Wait()
	var samples []interface{}
	for i := 0; i < len(cases); i += len(cases)/5 + 1 {
		_, _, names := c17build(cases[i])
		samples = append(samples, map[string]interface{}{"template": names, "len_rotation": cases[i].LenRot, "records": cases[i].Records, "mode": cases[i].Mode.String()})
	}
	fmt.Printf("C17 %s: templates=%d cases=%d accepted=%d strict-rejected=%d violations=%d\n", tier, len(tmplSeen), len(cases), accepted, rejected, rep.Violations())
	ev := &common.Evidence{PropertyID: "C17", Tier: tier}
	ev.Coverage = common.Coverage{
		"states": len(tmplSeen), "transitions": 2 * len(cases), "traces_validated_against_impl": len(cases), "samples": samples,
		"evaluations": len(cases), "distinct_nontrivial": len(cases),
		"rule":       fmt.Sprintf("every template of arity 1..%d over 9 element kinds {known u16, known string, known octetArray, known through a user-added registry, unknown IANA fixed(3), unknown IANA variable, unknown enterprise fixed(5), unknown enterprise variable, unknown id in a known enterprise} at every position x variable-length value rotations over {0,1,254,255,300} x {1,2} records x {strict, keep, drop} (each also with the data set ending in set padding), and each template also after an earlier valid definition of the same id and (lenient modes) after another template that announced the same unknown elements with different widths; each case = template message then data message on a fresh real collector, judged by the colmodel/refcodec reference (strict: template with any unknown rejected and the data after it rejected; keep: unknown fields delivered as octet arrays with exactly the received bytes; drop: exactly the unknown fields absent; known fields always their reference value). states = distinct templates; cases are distinct by construction", maxAr),
		"exhaustive": true, "accepted_cases": accepted, "strict_rejected_cases": rejected,
	}
	ev.WallS = common.Since(rep.Start)
	ev.Violations = rep.Violations()
	common.WriteEvidence(ev)
	return rep.Finish()
}
