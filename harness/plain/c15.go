package main

import (
	"bytes"
	"encoding/binary"
	"fmt"
	"math"
	"net"
	"runtime"
	"sync"
	"sync/atomic"

	"github.com/vmware/go-ipfix/pkg/collector"
	"github.com/vmware/go-ipfix/pkg/entities"
	"github.com/vmware/go-ipfix/pkg/registry"

	"verifharness/colcheck"
	"verifharness/colmodel"
	"verifharness/common"
	"verifharness/refcodec"
)

func init() { checks["C15"] = runC15 }

const verifPEN = 55555

var c15custom = []entities.InfoElement{
	{Name: "verifSigned8", ElementId: 1, DataType: entities.Signed8, EnterpriseId: verifPEN, Len: 1},
	{Name: "verifSigned16", ElementId: 2, DataType: entities.Signed16, EnterpriseId: verifPEN, Len: 2},
	{Name: "verifSigned64", ElementId: 3, DataType: entities.Signed64, EnterpriseId: verifPEN, Len: 8},
	{Name: "verifFloat32", ElementId: 4, DataType: entities.Float32, EnterpriseId: verifPEN, Len: 4},
	{Name: "verifOctets0", ElementId: 10, DataType: entities.OctetArray, EnterpriseId: verifPEN, Len: 0},
	{Name: "verifOctets1", ElementId: 11, DataType: entities.OctetArray, EnterpriseId: verifPEN, Len: 1},
	{Name: "verifOctets4", ElementId: 12, DataType: entities.OctetArray, EnterpriseId: verifPEN, Len: 4},
	{Name: "verifOctets254", ElementId: 13, DataType: entities.OctetArray, EnterpriseId: verifPEN, Len: 254},
	{Name: "verifOctets255", ElementId: 14, DataType: entities.OctetArray, EnterpriseId: verifPEN, Len: 255},
	{Name: "verifOctets256", ElementId: 15, DataType: entities.OctetArray, EnterpriseId: verifPEN, Len: 256},
	{Name: "verifOctets65000", ElementId: 16, DataType: entities.OctetArray, EnterpriseId: verifPEN, Len: 65000},
}

var c15once sync.Once

func c15register() {
	c15once.Do(func() {
		if err := registry.InitNewRegistry(verifPEN); err != nil {
			panic(err)
		}
		for _, ie := range c15custom {
			if err := registry.PutInfoElement(ie, verifPEN); err != nil {
				panic(err)
			}
		}
	})
}

func c15ie(name string, ent uint32) *entities.InfoElement {
	ie, err := registry.GetInfoElement(name, ent)
	if err != nil {
		panic(err)
	}
	return ie
}

// one case: element, library element with value, reference field bytes (without length prefix)
type c15val struct {
	ie  *entities.InfoElement
	el  func() entities.InfoElementWithValue
	raw []byte
}

func be(v uint64, n int) []byte {
	b := make([]byte, n)
	for i := 0; i < n; i++ {
		b[i] = byte(v >> (8 * uint(n-1-i)))
	}
	return b
}

func c15boundary64(bits uint) []uint64 {
	set := map[uint64]bool{0: true, 1: true}
	mask := uint64(math.MaxUint64)
	if bits < 64 {
		mask = 1<<bits - 1
	}
	for k := uint(0); k < bits; k++ {
		p := uint64(1) << k
		for _, v := range []uint64{p - 1, p, p + 1, ^p, ^(p - 1)} {
			set[v&mask] = true
		}
	}
	pat := uint64(0x0102030405060708)
	for r := 0; r < 8; r++ {
		set[(pat<<(8*uint(r))|pat>>(64-8*uint(r)))&mask] = true
	}
	set[mask] = true
	set[0xa5a5a5a5a5a5a5a5&mask] = true
	var out []uint64
	for v := range set {
		out = append(out, v)
	}
	return out
}

func c15pattern(n int) []byte {
	b := make([]byte, n)
	switch n % 3 {
	case 1:
		for i := range b {
			b[i] = 0xff
		}
	case 2:
		for i := range b {
			b[i] = byte(i)
		}
	}
	return b
}

func c15lengths(tier string) []int {
	var out []int
	if tier == "thorough" {
		for n := 0; n <= 65535; n++ {
			out = append(out, n)
		}
		return out
	}
	seen := map[int]bool{}
	add := func(n int) {
		if n >= 0 && n <= 65535 && !seen[n] {
			seen[n] = true
			out = append(out, n)
		}
	}
	for n := 0; n <= 600; n++ {
		add(n)
	}
	for n := 0; n <= 65535; n += 251 {
		add(n)
	}
	for n := 64900; n <= 65535; n++ {
		add(n)
	}
	return out
}

// c15Gen enumerates the value space, calling emit for each case.
func c15Gen(tier string, emit func(c15val)) {
	c15register()
	u8, i8 := c15ie("protocolIdentifier", 0), c15ie("verifSigned8", verifPEN)
	for v := 0; v < 256; v++ {
		v := v
		emit(c15val{u8, func() entities.InfoElementWithValue { return entities.NewUnsigned8InfoElement(u8, uint8(v)) }, []byte{byte(v)}})
		emit(c15val{i8, func() entities.InfoElementWithValue { return entities.NewSigned8InfoElement(i8, int8(v)) }, []byte{byte(v)}})
	}
	bl := c15ie("dataRecordsReliability", 0)
	emit(c15val{bl, func() entities.InfoElementWithValue { return entities.NewBoolInfoElement(bl, true) }, []byte{1}})
	emit(c15val{bl, func() entities.InfoElementWithValue { return entities.NewBoolInfoElement(bl, false) }, []byte{2}})
	u16, i16 := c15ie("sourceTransportPort", 0), c15ie("verifSigned16", verifPEN)
	for v := 0; v < 65536; v++ {
		v := v
		emit(c15val{u16, func() entities.InfoElementWithValue { return entities.NewUnsigned16InfoElement(u16, uint16(v)) }, be(uint64(v), 2)})
		emit(c15val{i16, func() entities.InfoElementWithValue { return entities.NewSigned16InfoElement(i16, int16(v)) }, be(uint64(v), 2)})
	}
	u32, i32, dts := c15ie("ingressInterface", 0), c15ie("mibObjectValueInteger", 0), c15ie("flowStartSeconds", 0)
	for _, v := range c15boundary64(32) {
		v := v
		emit(c15val{u32, func() entities.InfoElementWithValue { return entities.NewUnsigned32InfoElement(u32, uint32(v)) }, be(v, 4)})
		emit(c15val{i32, func() entities.InfoElementWithValue { return entities.NewSigned32InfoElement(i32, int32(uint32(v))) }, be(v, 4)})
		emit(c15val{dts, func() entities.InfoElementWithValue { return entities.NewDateTimeSecondsInfoElement(dts, uint32(v)) }, be(v, 4)})
	}
	u64, i64, dtms := c15ie("octetDeltaCount", 0), c15ie("verifSigned64", verifPEN), c15ie("flowStartMilliseconds", 0)
	for _, v := range c15boundary64(64) {
		v := v
		emit(c15val{u64, func() entities.InfoElementWithValue { return entities.NewUnsigned64InfoElement(u64, v) }, be(v, 8)})
		emit(c15val{i64, func() entities.InfoElementWithValue { return entities.NewSigned64InfoElement(i64, int64(v)) }, be(v, 8)})
		emit(c15val{dtms, func() entities.InfoElementWithValue { return entities.NewDateTimeMillisecondsInfoElement(dtms, v) }, be(v, 8)})
	}
	f32, f64 := c15ie("verifFloat32", verifPEN), c15ie("absoluteError", 0)
	for sign := uint32(0); sign < 2; sign++ {
		for exp := uint32(0); exp < 256; exp++ {
			for _, man := range []uint32{0, 1, 0x7fffff, 0x2aaaaa, 0x400000, 0x400001} {
				bits := sign<<31 | exp<<23 | man
				emit(c15val{f32, func() entities.InfoElementWithValue { return entities.NewFloat32InfoElement(f32, math.Float32frombits(bits)) }, be(uint64(bits), 4)})
			}
		}
	}
	for sign := uint64(0); sign < 2; sign++ {
		for exp := uint64(0); exp < 2048; exp++ {
			for _, man := range []uint64{0, 1, 1<<52 - 1, 0xaaaaaaaaaaaaa, 1 << 51, 1<<51 + 1} {
				bits := sign<<63 | exp<<52 | man
				emit(c15val{f64, func() entities.InfoElementWithValue { return entities.NewFloat64InfoElement(f64, math.Float64frombits(bits)) }, be(bits, 8)})
			}
		}
	}
	mac, ip4, ip6 := c15ie("sourceMacAddress", 0), c15ie("sourceIPv4Address", 0), c15ie("sourceIPv6Address", 0)
	addrs := func(n int) [][]byte {
		out := [][]byte{make([]byte, n), bytes.Repeat([]byte{0xff}, n)}
		for i := 0; i < n; i++ {
			for _, x := range []byte{1, 0x80, 0xff} {
				b := make([]byte, n)
				b[i] = x
				out = append(out, b)
			}
		}
		return out
	}
	for _, b := range addrs(6) {
		b := b
		emit(c15val{mac, func() entities.InfoElementWithValue { return entities.NewMacAddressInfoElement(mac, net.HardwareAddr(b)) }, b})
	}
	for _, b := range addrs(4) {
		b := b
		emit(c15val{ip4, func() entities.InfoElementWithValue { return entities.NewIPAddressInfoElement(ip4, net.IP(b)) }, b})
		// the same address in its 16-byte (v4-mapped) net.IP form is still an IPv4 address
		emit(c15val{ip4, func() entities.InfoElementWithValue { return entities.NewIPAddressInfoElement(ip4, net.IP(b).To16()) }, b})
	}
	// 16-byte values incl. IPv4-mapped ones (::ffff:a.b.c.d is a well-formed IPv6 address); only a
	// 4-byte net.IP handed to an ipv6Address element is left open by the statement and not enumerated
	for _, b := range append(addrs(16), net.ParseIP("2001:db8::1"), net.ParseIP("::ffff:10.1.2.3"), net.ParseIP("::ffff:255.255.255.255")) {
		b := b
		emit(c15val{ip6, func() entities.InfoElementWithValue { return entities.NewIPAddressInfoElement(ip6, net.IP(b)) }, b})
	}
	str, oct := c15ie("interfaceName", 0), c15ie("ipHeaderPacketSection", 0)
	for _, n := range c15lengths(tier) {
		b := c15pattern(n)
		emit(c15val{str, func() entities.InfoElementWithValue { return entities.NewStringInfoElement(str, string(b)) }, b})
		emit(c15val{oct, func() entities.InfoElementWithValue { return entities.NewOctetArrayInfoElement(oct, b) }, b})
	}
	for _, ce := range c15custom {
		if ce.DataType != entities.OctetArray {
			continue
		}
		ie := c15ie(ce.Name, verifPEN)
		for _, fill := range []byte{0, 0xff, 0x5a} {
			b := bytes.Repeat([]byte{fill}, int(ie.Len))
			emit(c15val{ie, func() entities.InfoElementWithValue { return entities.NewOctetArrayInfoElement(ie, b) }, b})
		}
	}
}

type c15worker struct {
	cp  *collector.CollectingProcess
	ch  chan *entities.Message
	tid uint16
	cur *entities.InfoElement
	s1  *entities.InfoElement
	s2  *entities.InfoElement
}

func newC15worker() *c15worker {
	cp, err := collector.VerifInitCollectingProcess(collector.CollectorInput{Address: "127.0.0.1:0", Protocol: "tcp", MaxBufferSize: 65535}, nullClock{})
	if err != nil {
		panic(err)
	}
	w := &c15worker{cp: cp, ch: make(chan *entities.Message, 4), tid: 400, s1: c15ie("sourceTransportPort", 0), s2: c15ie("destinationTransportPort", 0)}
	cp.VerifSetMsgChan(w.ch)
	return w
}

func fail(kind, f string, a ...interface{}) *[2]string { return &[2]string{kind, fmt.Sprintf(f, a...)} }

func (w *c15worker) check(c c15val) (res *[2]string) {
	defer func() {
		if r := recover(); r != nil {
			res = fail("panic", "%s value %x: %v", c.ie.Name, short(c.raw), r)
		}
	}()
	spec := refcodec.FieldSpec{ID: c.ie.ElementId, PEN: c.ie.EnterpriseId, Len: c.ie.Len}
	field := refcodec.EncodeField(spec, c.raw)
	want := append(append([]byte{0xa5, 0x5a}, field...), 0x5a, 0xa5)
	for variant := 0; variant < 3; variant++ {
		e := c.el()
		if e.GetLength() != len(field) {
			return fail("length", "%s value of %d bytes: element reports length %d, RFC 7011 encoding has %d bytes", c.ie.Name, len(c.raw), e.GetLength(), len(field))
		}
		els := []entities.InfoElementWithValue{entities.NewUnsigned16InfoElement(w.s1, 0xa55a), e, entities.NewUnsigned16InfoElement(w.s2, 0x5aa5)}
		var rec entities.Record
		if variant == 0 || variant == 2 {
			n := 3
			if variant == 2 {
				n = 0 // not pre-sized: the element list grows with each add, so a mid-build read is well defined
			}
			r := entities.NewDataRecord(w.tid, n, 0, false)
			for _, x := range els {
				if err := r.AddInfoElement(x); err != nil {
					return fail("add-error", "%s: %v", c.ie.Name, err)
				}
				if variant == 2 {
					// the application looks at the buffer while the record is still being built
					if b := r.GetBuffer(); len(b) != r.GetRecordLength() {
						return fail("record-length", "%s: mid-build buffer has %d bytes, GetRecordLength()=%d", c.ie.Name, len(b), r.GetRecordLength())
					}
				}
			}
			rec = r
		} else {
			rec = entities.NewDataRecordFromElements(w.tid, els, false)
		}
		buf := rec.GetBuffer()
		if len(buf) != rec.GetRecordLength() {
			return fail("record-length", "%s value of %d bytes: record buffer %d bytes, GetRecordLength()=%d", c.ie.Name, len(c.raw), len(buf), rec.GetRecordLength())
		}
		if !bytes.Equal(buf, want) {
			i := 0
			for i < len(buf) && i < len(want) && buf[i] == want[i] {
				i++
			}
			return fail("encoding", "%s value %x: encoded record differs from the RFC 7011 encoding at byte %d (lengths %d/%d; got ...%x, want ...%x)", c.ie.Name, short(c.raw), i, len(buf), len(want), short(buf[min(i, len(buf)):]), short(want[min(i, len(want)):]))
		}
	}
	// an element object that is reused: it held another (longer) value, was reset, and is given this one
	if c.ie.Len == entities.VariableLength && (c.ie.DataType == entities.String || c.ie.DataType == entities.OctetArray) {
		prev := bytes.Repeat([]byte{'p'}, 300)
		var e entities.InfoElementWithValue
		if c.ie.DataType == entities.String {
			e = entities.NewStringInfoElement(c.ie, string(prev))
		} else {
			e = entities.NewOctetArrayInfoElement(c.ie, prev)
		}
		if e.GetLength() != 303 {
			return fail("length", "%s value of 300 bytes: element reports length %d", c.ie.Name, e.GetLength())
		}
		e.ResetValue()
		if e.GetLength() != 1 {
			return fail("length", "%s: after ResetValue the element reports length %d, an empty value takes 1 byte", c.ie.Name, e.GetLength())
		}
		if c.ie.DataType == entities.String {
			e.SetStringValue(string(c.raw))
		} else {
			e.SetOctetArrayValue(append([]byte{}, c.raw...))
		}
		if e.GetLength() != len(field) {
			return fail("length", "%s value of %d bytes set on a reused element (300 bytes, reset, then this): element reports length %d, RFC 7011 encoding has %d bytes", c.ie.Name, len(c.raw), e.GetLength(), len(field))
		}
		rec := entities.NewDataRecordFromElements(w.tid, []entities.InfoElementWithValue{entities.NewUnsigned16InfoElement(w.s1, 0xa55a), e, entities.NewUnsigned16InfoElement(w.s2, 0x5aa5)}, false)
		if buf := rec.GetBuffer(); !bytes.Equal(buf, want) {
			return fail("encoding", "%s value %x on a reused element: encoded record has %d bytes, RFC 7011 encoding %d", c.ie.Name, short(c.raw), len(buf), len(want))
		}
	}
	// decode side 1: the collector's field-length reader and the element decoder, directly
	var value []byte
	if c.ie.Len == entities.VariableLength {
		b := bytes.NewBuffer(append([]byte{}, field...))
		n := collector.VerifGetFieldLength(b)
		if n != len(c.raw) || b.Len() != len(c.raw) {
			return fail("decoder-consumption", "%s value of %d bytes: the decoder reads length %d and leaves %d bytes", c.ie.Name, len(c.raw), n, b.Len())
		}
		value = b.Bytes()
	} else {
		value = field
	}
	dec, err := entities.DecodeAndCreateInfoElementWithValue(c.ie, value)
	if err != nil {
		return fail("decode-error", "%s: %v", c.ie.Name, err)
	}
	if got, wantv := common.ImplValue(dec), common.RefValue(c.ie.DataType, c.raw); got != wantv {
		return fail("round-trip", "%s: decoded %s, encoded value was %s", c.ie.Name, short([]byte(got)), short([]byte(wantv)))
	}
	if c.ie.Len == entities.VariableLength && dec.GetLength() != len(field) {
		return fail("length", "%s: decoded element of %d bytes reports length %d, wire had %d", c.ie.Name, len(c.raw), dec.GetLength(), len(field))
	}
	// decode side 2: through a whole message when it fits
	if 20+len(want) <= 65535 {
		if w.cur != c.ie {
			w.tid++
			t := refcodec.Template{ID: w.tid, Fields: []refcodec.FieldSpec{{ID: 7, Len: 2}, spec, {ID: 11, Len: 2}}}
			if _, err := w.cp.VerifDecodePacket(refcodec.TemplateMsg(refcodec.Header{Domain: 1}, t), "10.0.0.1:1"); err != nil {
				return fail("template-refused", "%s: %v", c.ie.Name, err)
			}
			<-w.ch
			w.cur = c.ie
		}
		m, err := w.cp.VerifDecodePacket(refcodec.Msg(refcodec.Header{Domain: 1}, w.tid, want), "10.0.0.1:1")
		if err != nil {
			return fail("message-refused", "%s value of %d bytes: the collector refuses the record the library encoded: %v", c.ie.Name, len(c.raw), err)
		}
		<-w.ch
		recs := m.GetSet().GetRecords()
		if len(recs) != 1 || len(recs[0].GetOrderedElementList()) != 3 {
			return fail("message-shape", "%s: %d records decoded", c.ie.Name, len(recs))
		}
		l := recs[0].GetOrderedElementList()
		if l[0].GetUnsigned16Value() != 0xa55a || l[2].GetUnsigned16Value() != 0x5aa5 {
			return fail("neighbour-corrupted", "%s value of %d bytes: the fields around it decode to %x / %x", c.ie.Name, len(c.raw), l[0].GetUnsigned16Value(), l[2].GetUnsigned16Value())
		}
		if got, wantv := common.ImplValue(l[1]), common.RefValue(c.ie.DataType, c.raw); got != wantv {
			return fail("round-trip", "%s through a message: decoded %s, sent %s", c.ie.Name, short([]byte(got)), short([]byte(wantv)))
		}
	}
	return nil
}

func runC15(tier, replay string) int {
	rep := common.NewReporter("C15")
	c15register()
	if tier == "replay" {
		r, err := common.ReadReplay(replay)
		if err != nil {
			fmt.Println(err)
			return 2
		}
		// replays are identified by element name + raw value; re-run the enumeration and check matching cases
		tr, _ := r.Trace.(map[string]interface{})
		name, _ := tr["element"].(string)
		rawHex, _ := tr["raw_prefix"].(string)
		n := int(tr["raw_len"].(float64))
		w := newC15worker()
		rc := 0
		c15Gen("thorough", func(c c15val) {
			if c.ie.Name == name && len(c.raw) == n && fmt.Sprintf("%x", short(c.raw)) == rawHex && rc == 0 {
				if res := w.check(c); res != nil {
					fmt.Printf("replay: %s: %s\nVIOLATION property=C15 replay=%s\n", res[0], res[1], replay)
					rc = 1
				}
			}
		})
		if name == "<nil-value>" {
			rc = c15nil(rep, true)
		}
		if rc == 0 {
			fmt.Println("replay: no violation")
		}
		return rc
	}
	nw := runtime.NumCPU()
	chs := make(chan c15val, 1024)
	var wg sync.WaitGroup
	var count int64
	perType := map[string]*int64{}
	var mu sync.Mutex
	seenKind := map[string]bool{}
	for i := 0; i < nw; i++ {
		wg.Add(1)
		go func() {
			defer wg.Done()
			w := newC15worker()
			for c := range chs {
				atomic.AddInt64(&count, 1)
				if res := w.check(c); res != nil {
					mu.Lock()
					k := res[0] + c.ie.Name
					if !seenKind[k] {
						seenKind[k] = true
						rep.Report(c.ie.Name, res[0], res[1], map[string]interface{}{"element": c.ie.Name, "raw_len": len(c.raw), "raw_prefix": fmt.Sprintf("%x", short(c.raw))}, nil)
					}
					mu.Unlock()
				}
			}
		}()
	}
	var samples []interface{}
	c15Gen(tier, func(c c15val) {
		mu.Lock()
		p := perType[c.ie.Name]
		if p == nil {
			p = new(int64)
			perType[c.ie.Name] = p
			samples = append(samples, map[string]interface{}{"element": c.ie.Name, "type": int(c.ie.DataType), "first_value_hex": fmt.Sprintf("%x", short(c.raw))})
		}
		*p++
		mu.Unlock()
		chs <- c
	})
	close(chs)
	wg.Wait()
	c15nil(rep, false)
	per := map[string]int64{}
	for k, v := range perType {
		per[k] = *v
	}
	fmt.Printf("C15 %s: values=%d elements=%d violations=%d\n", tier, count, len(perType), rep.Violations())
	ev := &common.Evidence{PropertyID: "C15", Tier: tier}
	ev.Coverage = common.Coverage{
		"states": count, "transitions": count * 4, "traces_validated_against_impl": count, "samples": samples[:min(len(samples), 8)],
		"evaluations": count, "distinct_nontrivial": count,
		"rule":       "for every supported type one element (registry, or user-registered in enterprise 55555 for signed8/16/64, float32 and fixed-length octet arrays): all 256 / 65536 values of the 8- and 16-bit types, both booleans, ~400 boundary values per 32/64-bit integer and date type, every float32/float64 exponent x 6 mantissas x sign (subnormals, infinities, quiet and signalling NaNs), address patterns, fixed octet arrays of length 0,1,4,254,255,256,65000 and every string / octet-array length in the tier's set (thorough: every length 0..65535); each value is encoded inside a record between two sentinel fields through both record constructors (and once more with the buffer read after every added element) and compared byte-for-byte with the RFC 7011 encoding, GetLength/GetRecordLength/buffer length must agree, and the bytes are decoded back through the collector's field-length reader + element decoder and, when they fit, through a whole message, to the same bits. Values are distinct by construction; per_element gives the count per element",
		"exhaustive": true, "per_element": per,
	}
	ev.Assumptions = []string{"a 4-byte net.IP handed to an ipv6Address element is not in the alphabet (left open by the statement); 16-byte IPv4-mapped values are"}
	ev.WallS = common.Since(rep.Start)
	ev.Violations = rep.Violations()
	common.WriteEvidence(ev)
	return rep.Finish()
}

// c15nil: the documented way of building template (value-less) elements must work for every type.
func c15nil(rep *common.Reporter, replay bool) int {
	rc := 0
	names := map[string]uint32{"protocolIdentifier": 0, "sourceTransportPort": 0, "ingressInterface": 0, "octetDeltaCount": 0, "verifSigned8": verifPEN, "verifSigned16": verifPEN,
		"mibObjectValueInteger": 0, "verifSigned64": verifPEN, "verifFloat32": verifPEN, "absoluteError": 0, "dataRecordsReliability": 0, "sourceMacAddress": 0, "interfaceName": 0,
		"flowStartSeconds": 0, "flowStartMilliseconds": 0, "sourceIPv4Address": 0, "sourceIPv6Address": 0, "ipHeaderPacketSection": 0}
	for n, ent := range names {
		ie := c15ie(n, ent)
		func() {
			defer func() {
				if r := recover(); r != nil {
					rc = 1
					if replay {
						fmt.Printf("replay: value-less %s element: panic %v\nVIOLATION property=C15\n", n, r)
					} else {
						rep.Report("nil-value", "panic", fmt.Sprintf("building a value-less (template) element of type %d (%s) with DecodeAndCreateInfoElementWithValue(element, nil) panics: %v", ie.DataType, n, r), map[string]interface{}{"element": "<nil-value>", "raw_len": 0, "raw_prefix": ""}, nil)
					}
				}
			}()
			e, err := entities.DecodeAndCreateInfoElementWithValue(ie, nil)
			if err != nil {
				rep.Report("nil-value", "nil-value-error", fmt.Sprintf("%s: %v", n, err), map[string]interface{}{"element": "<nil-value>", "raw_len": 0, "raw_prefix": ""}, nil)
				return
			}
			if _, err := entities.MakeTemplateSet(300, []*entities.InfoElement{ie}); err != nil {
				rep.Report("nil-value", "nil-value-error", fmt.Sprintf("MakeTemplateSet(%s): %v", n, err), nil, nil)
			}
			_ = e
		}()
	}
	return rc
}

var _ = binary.BigEndian
var _ = colcheck.ModeOf
var _ = colmodel.Strict
