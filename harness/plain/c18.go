package main

import (
	"crypto/tls"
	"crypto/x509"
	"fmt"
	"net"
	"os"
	"os/exec"
	"runtime"
	"strings"
	"sync"
	"time"

	"github.com/vmware/go-ipfix/pkg/collector"
	"github.com/vmware/go-ipfix/pkg/exporter"

	"verifharness/certs"
	"verifharness/common"
	"verifharness/refcodec"
)

func init() { checks["C18"] = runC18; checks["C18child"] = runC18child }

var c18serverKinds = []string{"trusted", "other-ca", "self-signed", "expired", "not-yet-valid", "wrong-san", "no-san"}
var c18nameKinds = []string{"matching", "unset", "mismatching"}
var c18clientKinds = []string{"none", "trusted", "other-ca", "expired"}
var c18versions = []uint16{tls.VersionTLS11, tls.VersionTLS12, tls.VersionTLS13}

type c18pki struct {
	ca, other *certs.CA
	server    map[string][2][]byte
	client    map[string][2][]byte
}

func newC18PKI() *c18pki {
	p := &c18pki{ca: certs.NewCA("verif-ca"), other: certs.NewCA("verif-other-ca"), server: map[string][2][]byte{}, client: map[string][2][]byte{}}
	lb := certs.Loopback()
	mk := func(ca *certs.CA, o certs.Opts) [2][]byte { c, k := ca.Issue(o); return [2][]byte{c, k} }
	past := time.Now().Add(-48 * time.Hour)
	p.server["trusted"] = mk(p.ca, certs.Opts{CN: "collector", DNS: []string{"localhost"}, IPs: lb})
	p.server["other-ca"] = mk(p.other, certs.Opts{CN: "collector", DNS: []string{"localhost"}, IPs: lb})
	p.server["self-signed"] = mk(p.ca, certs.Opts{CN: "collector", DNS: []string{"localhost"}, IPs: lb, SelfSign: true})
	p.server["expired"] = mk(p.ca, certs.Opts{CN: "collector", DNS: []string{"localhost"}, IPs: lb, NotBefore: past, NotAfter: past.Add(time.Hour)})
	p.server["not-yet-valid"] = mk(p.ca, certs.Opts{CN: "collector", DNS: []string{"localhost"}, IPs: lb, NotBefore: time.Now().Add(24 * time.Hour), NotAfter: time.Now().Add(48 * time.Hour)})
	p.server["wrong-san"] = mk(p.ca, certs.Opts{CN: "collector", DNS: []string{"other.example"}, IPs: []net.IP{net.ParseIP("10.9.9.9")}})
	p.server["no-san"] = mk(p.ca, certs.Opts{CN: "localhost"})
	// the other CA's server certificate followed by that CA's own certificate (a full chain in ServerCert)
	fc := p.server["other-ca"]
	p.server["other-ca-fullchain"] = [2][]byte{append(append([]byte{}, fc[0]...), p.other.PEM...), fc[1]}
	p.client["trusted"] = mk(p.ca, certs.Opts{CN: "exporter", Client: true})
	p.client["other-ca"] = mk(p.other, certs.Opts{CN: "exporter", Client: true})
	p.client["expired"] = mk(p.ca, certs.Opts{CN: "exporter", Client: true, NotBefore: past, NotAfter: past.Add(time.Hour)})
	return p
}

func c18serverName(kind string) string {
	switch kind {
	case "matching":
		return "localhost"
	case "mismatching":
		return "wrong.example"
	case "mismatching-ip":
		return "192.0.2.55" // an address literal the certificate does not carry (and nobody dials)
	}
	return ""
}

func c18serverOK(kind string) bool { return kind == "trusted" }

// name/address match for a *valid trusted* certificate kind
func c18nameOK(serverKind, nameKind string) bool {
	switch serverKind {
	case "wrong-san", "no-san":
		return false
	}
	return nameKind != "mismatching" && nameKind != "mismatching-ip"
}

var c18tmpl = refcodec.TemplateMsg(refcodec.Header{ExportTime: 1, Seq: 0, Domain: 9}, refcodec.Template{ID: 256, Fields: []refcodec.FieldSpec{{ID: 7, Len: 2}}})

type c18cell struct {
	Role   string
	Server string
	Name   string
	Client string
	CA     bool   // collector has a client CA configured
	Ver    uint16 // hand-made peer's maximum version
	Proto  string // tls | dtls
}

func (c c18cell) String() string {
	return fmt.Sprintf("%s/%s server=%s name=%s client=%s clientCA=%v peerMax=%#x", c.Proto, c.Role, c.Server, c.Name, c.Client, c.CA, c.Ver)
}

// expectation: true = session must complete and the message must flow; false = nothing may flow
func c18expect(c c18cell) (want bool, open bool) {
	switch c.Role {
	case "exporter-vs-peer":
		return c18serverOK(c.Server) && c18nameOK(c.Server, c.Name) && c.Ver >= tls.VersionTLS12, false
	case "peer-vs-collector":
		ok := c.Ver >= tls.VersionTLS12
		if c.CA {
			ok = ok && c.Client == "trusted"
		}
		return ok, false
	case "library":
		ok := c.Server != "other-ca" && c.Server != "self-signed" && c.Server != "expired" && c.Server != "not-yet-valid"
		if c.Proto == "dtls" {
			// the DTLS library checks names only when a ServerName is configured: without one a
			// certificate of the right CA is accepted whatever names it carries (left open, see DESIGN §9)
			if c.Name == "unset" {
				return ok, c.Server == "wrong-san" || c.Server == "no-san"
			}
			if c.Name == "mismatching-ip" {
				// pion/dtls drops a ServerName that is an address literal (it would be no legal SNI) and then
				// verifies the chain only: the same open point as an unset ServerName
				return ok, true
			}
			return ok && c18nameOK(c.Server, c.Name), false
		}
		ok = ok && c18nameOK(c.Server, c.Name)
		if c.CA {
			ok = ok && c.Client == "trusted"
		}
		return ok, false
	}
	return false, false
}

func waitAddr(cp *collector.CollectingProcess) string {
	for i := 0; i < 3000; i++ {
		if a := cp.GetAddress(); a != nil {
			return a.String()
		}
		time.Sleep(time.Millisecond)
	}
	return ""
}

// runCell returns (flowed, detail, stuck)
func c18run(p *c18pki, c c18cell) (bool, string, bool) {
	switch c.Role {
	case "exporter-vs-peer":
		sc := p.server[c.Server]
		cert, err := tls.X509KeyPair(sc[0], sc[1])
		if err != nil {
			return false, err.Error(), true
		}
		ln, err := tls.Listen("tcp", "127.0.0.1:0", &tls.Config{Certificates: []tls.Certificate{cert}, MinVersion: tls.VersionTLS10, MaxVersion: c.Ver})
		if err != nil {
			return false, err.Error(), true
		}
		defer ln.Close()
		// every connection is served (an exporter may dial more than once); the first bytes any of them
		// delivers after a completed handshake are what the peer "received"
		got := make(chan []byte, 16)
		go func() {
			for {
				conn, err := ln.Accept()
				if err != nil {
					return
				}
				go func() {
					defer conn.Close()
					conn.SetDeadline(time.Now().Add(3 * time.Second))
					b := make([]byte, 64)
					if n, _ := conn.Read(b); n > 0 {
						got <- b[:n]
					}
				}()
			}
		}()
		in := exporter.ExporterInput{CollectorAddress: ln.Addr().String(), CollectorProtocol: "tcp", ObservationDomainID: 9,
			TLSClientConfig: &exporter.ExporterTLSClientConfig{ServerName: c18serverName(c.Name), CAData: p.ca.PEM}}
		if c.Client != "none" {
			in.TLSClientConfig.CertData, in.TLSClientConfig.KeyData = p.client[c.Client][0], p.client[c.Client][1]
		}
		type ir struct {
			ep  *exporter.ExportingProcess
			err error
		}
		idone := make(chan ir, 1)
		go func() {
			ep, err := exporter.InitExportingProcess(in)
			idone <- ir{ep, err}
		}()
		var ep *exporter.ExportingProcess
		select {
		case x := <-idone:
			if x.err != nil {
				return false, "InitExportingProcess: " + x.err.Error(), false
			}
			ep = x.ep
		case <-time.After(40 * time.Second):
			return false, "InitExportingProcess neither completed nor failed within 40 s", true
		}
		defer ep.CloseConnToCollector()
		set := e2eCase{elems: []e2eElem{{c15ie("sourceTransportPort", 0)}}}.tmplSet(ep.NewTemplateID())
		if _, err := ep.SendSet(set); err != nil {
			return false, "SendSet: " + err.Error(), false
		}
		select {
		case b := <-got:
			if len(b) >= 2 && b[0] == 0 && b[1] == 10 {
				return true, "peer received an IPFIX message", false
			}
			return false, fmt.Sprintf("peer received %x", b), false
		case <-time.After(5 * time.Second):
			return false, "peer received nothing", false
		}
	case "peer-vs-collector", "library":
		sc := p.server["trusted"]
		if c.Role == "library" || c.Server == "other-ca-fullchain" {
			sc = p.server[c.Server]
		}
		proto := "tcp"
		if c.Proto == "dtls" {
			proto = "udp"
		}
		in := collector.CollectorInput{Address: "127.0.0.1:0", Protocol: proto, MaxBufferSize: 65535, IsEncrypted: true, ServerCert: sc[0], ServerKey: sc[1]}
		if c.CA {
			in.CACert = p.ca.PEM
		}
		cp, err := collector.InitCollectingProcess(in)
		if err != nil {
			return false, err.Error(), true
		}
		go cp.Start()
		addr := waitAddr(cp)
		if addr == "" {
			return false, "collector did not start", true
		}
		if proto == "tcp" {
			defer cp.Stop()
		}
		if c.Role == "peer-vs-collector" {
			roots := x509.NewCertPool()
			roots.AppendCertsFromPEM(p.ca.PEM)
			if c.Server == "other-ca-fullchain" {
				roots.AppendCertsFromPEM(p.other.PEM) // this client trusts the collector's issuer
			}
			cfg := &tls.Config{RootCAs: roots, ServerName: "localhost", MinVersion: tls.VersionTLS10, MaxVersion: c.Ver}
			if c.Client != "none" {
				kp, _ := tls.X509KeyPair(p.client[c.Client][0], p.client[c.Client][1])
				cfg.Certificates = []tls.Certificate{kp}
			}
			d := &net.Dialer{Timeout: 3 * time.Second}
			conn, err := tls.DialWithDialer(d, "tcp", addr, cfg)
			if err == nil {
				conn.Write(c18tmpl)
				defer conn.Close()
			}
		} else {
			ein := exporter.ExporterInput{CollectorAddress: addr, CollectorProtocol: proto, ObservationDomainID: 9,
				TLSClientConfig: &exporter.ExporterTLSClientConfig{ServerName: c18serverName(c.Name), CAData: p.ca.PEM}}
			if c.Client != "none" {
				ein.TLSClientConfig.CertData, ein.TLSClientConfig.KeyData = p.client[c.Client][0], p.client[c.Client][1]
			}
			type r struct {
				ep  *exporter.ExportingProcess
				err error
			}
			done := make(chan r, 1)
			go func() {
				ep, err := exporter.InitExportingProcess(ein)
				done <- r{ep, err}
			}()
			select {
			case x := <-done:
				if x.err == nil {
					defer x.ep.CloseConnToCollector()
					set := e2eCase{elems: []e2eElem{{c15ie("sourceTransportPort", 0)}}}.tmplSet(x.ep.NewTemplateID())
					x.ep.SendSet(set)
				}
			case <-time.After(40 * time.Second):
				return false, "InitExportingProcess neither completed nor failed within 40 s", true
			}
		}
		want, _ := c18expect(c)
		wait := 400 * time.Millisecond
		if want {
			wait = 5 * time.Second
		}
		select {
		case m := <-cp.GetMsgChan():
			return true, fmt.Sprintf("collector delivered a message (domain %d)", m.GetObsDomainID()), false
		case <-time.After(wait):
			return false, "collector delivered nothing", false
		}
	}
	return false, "", true
}

// c18sequences: trust decisions must not carry over between exporting processes. One long-lived server
// (hand-made with TLS 1.2 / 1.3, and the library collector); an exporter trusting the server's CA
// completes a session; afterwards an exporter configured with a different CA only - same server, same
// ServerName - must still be refused (a process-wide session cache would resume without re-verifying).
func c18sequences(p *c18pki, rep *common.Reporter) int {
	n := 0
	try := func(addr string, ca []byte, name string) bool {
		ep, err := exporter.InitExportingProcess(exporter.ExporterInput{CollectorAddress: addr, CollectorProtocol: "tcp", ObservationDomainID: 9,
			TLSClientConfig: &exporter.ExporterTLSClientConfig{ServerName: name, CAData: ca}})
		if err != nil {
			return false
		}
		set := e2eCase{elems: []e2eElem{{c15ie("sourceTransportPort", 0)}}}.tmplSet(ep.NewTemplateID())
		_, err = ep.SendSet(set)
		time.Sleep(50 * time.Millisecond)
		ep.CloseConnToCollector()
		return err == nil
	}
	sc := p.server["trusted"]
	cert, _ := tls.X509KeyPair(sc[0], sc[1])
	for _, ver := range []uint16{tls.VersionTLS12, tls.VersionTLS13} {
		for _, name := range []string{"localhost", ""} {
			n++
			ln, err := tls.Listen("tcp", "127.0.0.1:0", &tls.Config{Certificates: []tls.Certificate{cert}, MinVersion: tls.VersionTLS12, MaxVersion: ver})
			if err != nil {
				continue
			}
			flows := make(chan bool, 16)
			go func() {
				for {
					conn, err := ln.Accept()
					if err != nil {
						return
					}
					go func() {
						conn.SetDeadline(time.Now().Add(2 * time.Second))
						b := make([]byte, 64)
						k, _ := conn.Read(b)
						flows <- k >= 2 && b[0] == 0 && b[1] == 10
						conn.Close()
					}()
				}
			}()
			seq := fmt.Sprintf("hand-made TLS server (max %#x), ServerName=%q", ver, name)
			for round := 0; round < 2; round++ {
				if !try(ln.Addr().String(), p.ca.PEM, name) || !<-flows {
					rep.Report("sequence", "refused-valid-peer", seq+": an exporter trusting the server's CA could not complete a session", map[string]string{"cell": seq}, nil)
				}
				if try(ln.Addr().String(), p.other.PEM, name) {
					select {
					case f := <-flows:
						if f {
							rep.Report("sequence", "accepted-unauthenticated-peer", seq+": after an earlier exporter (trusting the server's CA) had completed a session, an exporter configured with a different CA only completed a session with the same server and sent its messages", map[string]string{"cell": seq}, nil)
						}
					case <-time.After(300 * time.Millisecond):
					}
				} else {
					select {
					case <-flows:
					case <-time.After(100 * time.Millisecond):
					}
				}
			}
			ln.Close()
		}
	}
	// one ExporterTLSClientConfig value reused by an application for two exporters: what the first session
	// established (the name it verified) must not decide the second. Server A listens on 127.0.0.1, server B
	// on 127.0.0.2 with a certificate that is valid for 127.0.0.1 only; ServerName is unset, so the address
	// dialled is the name to verify, and B must be refused.
	{
		n++
		only1 := [2][]byte{}
		only1[0], only1[1] = p.ca.Issue(certs.Opts{CN: "collector", IPs: []net.IP{net.ParseIP("127.0.0.1")}})
		c1, _ := tls.X509KeyPair(only1[0], only1[1])
		serve := func(host string) (net.Listener, chan bool) {
			ln, err := tls.Listen("tcp", host+":0", &tls.Config{Certificates: []tls.Certificate{c1}, MinVersion: tls.VersionTLS12})
			if err != nil {
				return nil, nil
			}
			flows := make(chan bool, 16)
			go func() {
				for {
					conn, err := ln.Accept()
					if err != nil {
						return
					}
					go func() {
						conn.SetDeadline(time.Now().Add(2 * time.Second))
						b := make([]byte, 64)
						k, _ := conn.Read(b)
						flows <- k >= 2 && b[0] == 0 && b[1] == 10
						conn.Close()
					}()
				}
			}()
			return ln, flows
		}
		la, fa := serve("127.0.0.1")
		lb, fb := serve("127.0.0.2")
		if la != nil && lb != nil {
			shared := &exporter.ExporterTLSClientConfig{CAData: p.ca.PEM} // ServerName left unset
			send := func(addr string) bool {
				ep, err := exporter.InitExportingProcess(exporter.ExporterInput{CollectorAddress: addr, CollectorProtocol: "tcp", ObservationDomainID: 9, TLSClientConfig: shared})
				if err != nil {
					return false
				}
				set := e2eCase{elems: []e2eElem{{c15ie("sourceTransportPort", 0)}}}.tmplSet(ep.NewTemplateID())
				_, err = ep.SendSet(set)
				time.Sleep(50 * time.Millisecond)
				ep.CloseConnToCollector()
				return err == nil
			}
			seq := "one TLS client configuration (ServerName unset) used for 127.0.0.1, then for 127.0.0.2 whose certificate names 127.0.0.1 only"
			if !send(la.Addr().String()) || !<-fa {
				rep.Report("sequence", "refused-valid-peer", seq+": the first session (address matches the certificate) was refused", map[string]string{"cell": seq}, nil)
			}
			if send(lb.Addr().String()) {
				select {
				case f := <-fb:
					if f {
						rep.Report("sequence", "accepted-unauthenticated-peer", seq+": the second exporter completed a session and sent its messages although the certificate does not match the address it dialled", map[string]string{"cell": seq}, nil)
					}
				case <-time.After(300 * time.Millisecond):
				}
			}
		}
		if la != nil {
			la.Close()
		}
		if lb != nil {
			lb.Close()
		}
	}
	// same against the library collector
	for _, name := range []string{"localhost", ""} {
		n++
		cp, _ := collector.InitCollectingProcess(collector.CollectorInput{Address: "127.0.0.1:0", Protocol: "tcp", MaxBufferSize: 65535, IsEncrypted: true, ServerCert: sc[0], ServerKey: sc[1]})
		go cp.Start()
		addr := waitAddr(cp)
		seq := fmt.Sprintf("library collector, ServerName=%q", name)
		drain := func(wait time.Duration) bool {
			select {
			case <-cp.GetMsgChan():
				return true
			case <-time.After(wait):
				return false
			}
		}
		for round := 0; round < 2; round++ {
			ok := try(addr, p.ca.PEM, name)
			if !ok || !drain(3*time.Second) {
				rep.Report("sequence", "refused-valid-peer", seq+": an exporter trusting the collector's CA could not complete a session", map[string]string{"cell": seq}, nil)
			}
			try(addr, p.other.PEM, name)
			if drain(300 * time.Millisecond) {
				rep.Report("sequence", "accepted-unauthenticated-peer", seq+": after an earlier trusted session, an exporter configured with a different CA only got its messages through to the same collector", map[string]string{"cell": seq}, nil)
			}
		}
		cp.Stop()
	}
	return n
}

// c18systemStore: the configured CA is the only trust anchor - a collector whose certificate chains to some CA
// of the machine's system store (and not to the configured one) must be refused. Go reads the system store
// once per process from SSL_CERT_FILE / SSL_CERT_DIR, so the cell runs in a child process of this binary
// whose system store is made to hold exactly the *other* CA.
func c18systemStore(p *c18pki, rep *common.Reporter) int {
	dir, err := os.MkdirTemp("", "verif-c18-")
	if err != nil {
		return 0
	}
	defer os.RemoveAll(dir)
	os.Mkdir(dir+"/emptydir", 0o700)
	sc := p.server["other-ca"]
	for name, b := range map[string][]byte{"system.pem": p.other.PEM, "configured-ca.pem": p.ca.PEM, "server.crt": sc[0], "server.key": sc[1]} {
		os.WriteFile(dir+"/"+name, b, 0o600)
	}
	self, _ := os.Executable()
	cmd := exec.Command(self, "C18child", dir)
	cmd.Env = append(os.Environ(), "SSL_CERT_FILE="+dir+"/system.pem", "SSL_CERT_DIR="+dir+"/emptydir")
	out, _ := cmd.CombinedOutput()
	switch {
	case strings.Contains(string(out), "C18CHILD FLOW"):
		rep.Report("system-store", "accepted-unauthenticated-peer", "an exporter configured with one CA completed a session with a collector whose certificate chains to a different CA that happens to be in the system trust store, and sent its messages", map[string]string{"cell": "exporter vs server certified by a system-store CA other than the configured one"}, nil)
	case strings.Contains(string(out), "C18CHILD REFUSED"):
	default:
		fmt.Printf("C18 system-store cell: child gave no verdict: %.300s\n", out)
	}
	return 1
}

func runC18child(_, _ string) int {
	dir := os.Args[len(os.Args)-1]
	rd := func(n string) []byte { b, _ := os.ReadFile(dir + "/" + n); return b }
	cert, err := tls.X509KeyPair(rd("server.crt"), rd("server.key"))
	if err != nil {
		fmt.Println("C18CHILD ERROR", err)
		return 2
	}
	ln, err := tls.Listen("tcp", "127.0.0.1:0", &tls.Config{Certificates: []tls.Certificate{cert}, MinVersion: tls.VersionTLS12})
	if err != nil {
		fmt.Println("C18CHILD ERROR", err)
		return 2
	}
	got := make(chan bool, 4)
	go func() {
		for {
			conn, err := ln.Accept()
			if err != nil {
				return
			}
			go func() {
				conn.SetDeadline(time.Now().Add(2 * time.Second))
				b := make([]byte, 64)
				k, _ := conn.Read(b)
				if k >= 2 && b[0] == 0 && b[1] == 10 {
					got <- true
				}
				conn.Close()
			}()
		}
	}()
	ep, err := exporter.InitExportingProcess(exporter.ExporterInput{CollectorAddress: ln.Addr().String(), CollectorProtocol: "tcp", ObservationDomainID: 9,
		TLSClientConfig: &exporter.ExporterTLSClientConfig{ServerName: "localhost", CAData: rd("configured-ca.pem")}})
	if err == nil {
		set := e2eCase{elems: []e2eElem{{c15ie("sourceTransportPort", 0)}}}.tmplSet(ep.NewTemplateID())
		ep.SendSet(set)
		select {
		case <-got:
			fmt.Println("C18CHILD FLOW")
			return 0
		case <-time.After(2 * time.Second):
		}
	}
	fmt.Println("C18CHILD REFUSED")
	return 0
}

// plaintext peers against encrypted endpoints
func c18plaintext(p *c18pki, rep *common.Reporter) int {
	n := 0
	sc := p.server["trusted"]
	// plaintext exporter -> TLS collector / DTLS collector
	for _, proto := range []string{"tcp", "udp"} {
		n++
		cp, _ := collector.InitCollectingProcess(collector.CollectorInput{Address: "127.0.0.1:0", Protocol: proto, MaxBufferSize: 65535, IsEncrypted: true, ServerCert: sc[0], ServerKey: sc[1]})
		go cp.Start()
		addr := waitAddr(cp)
		ep, err := exporter.InitExportingProcess(exporter.ExporterInput{CollectorAddress: addr, CollectorProtocol: proto, ObservationDomainID: 9})
		if err == nil {
			set := e2eCase{elems: []e2eElem{{c15ie("sourceTransportPort", 0)}}}.tmplSet(ep.NewTemplateID())
			ep.SendSet(set)
			defer ep.CloseConnToCollector()
		}
		select {
		case <-cp.GetMsgChan():
			rep.Report("plaintext", "plaintext-accepted", fmt.Sprintf("a collector configured for encryption (%s) delivered a message received over an unencrypted session", proto), map[string]string{"cell": "plaintext exporter -> encrypted collector " + proto}, nil)
		case <-time.After(400 * time.Millisecond):
		}
		if proto == "tcp" {
			cp.Stop()
		}
	}
	// security settings present but unusable (a client CA that is no certificate, an empty client CA, a key
	// that does not belong to the certificate, a certificate that is none): the collector may refuse to
	// start, it must not come up serving IPFIX in clear
	broken := []struct {
		what string
		in   collector.CollectorInput
	}{
		{"client CA holds a key, not a certificate", collector.CollectorInput{IsEncrypted: true, ServerCert: sc[0], ServerKey: sc[1], CACert: sc[1]}},
		{"client CA is empty", collector.CollectorInput{IsEncrypted: true, ServerCert: sc[0], ServerKey: sc[1], CACert: []byte{}}},
		{"client CA is not PEM", collector.CollectorInput{IsEncrypted: true, ServerCert: sc[0], ServerKey: sc[1], CACert: []byte("-----BEGIN CERTIFICATE-----\nnot base64\n-----END CERTIFICATE-----\n")}},
		{"server key belongs to another certificate", collector.CollectorInput{IsEncrypted: true, ServerCert: sc[0], ServerKey: p.server["other-ca"][1]}},
		{"server certificate is not a certificate", collector.CollectorInput{IsEncrypted: true, ServerCert: []byte("garbage"), ServerKey: sc[1]}},
		{"no server certificate at all", collector.CollectorInput{IsEncrypted: true}},
	}
	for _, b := range broken {
		for _, proto := range []string{"tcp", "udp"} {
			n++
			in := b.in
			in.Address, in.Protocol, in.MaxBufferSize = "127.0.0.1:0", proto, 65535
			cp, err := collector.InitCollectingProcess(in)
			if err != nil {
				continue // refused outright: fine
			}
			started := make(chan struct{})
			go func() { defer func() { recover(); close(started) }(); cp.Start() }()
			addr := ""
			for i := 0; i < 1000 && addr == ""; i++ {
				if a := cp.GetAddress(); a != nil {
					addr = a.String()
				}
				select {
				case <-started:
					i = 1000
				case <-time.After(time.Millisecond):
				}
			}
			if addr == "" {
				continue // never listened: fine
			}
			ep, err := exporter.InitExportingProcess(exporter.ExporterInput{CollectorAddress: addr, CollectorProtocol: proto, ObservationDomainID: 9})
			if err == nil {
				set := e2eCase{elems: []e2eElem{{c15ie("sourceTransportPort", 0)}}}.tmplSet(ep.NewTemplateID())
				ep.SendSet(set)
			}
			select {
			case <-cp.GetMsgChan():
				rep.Report("plaintext", "plaintext-accepted", fmt.Sprintf("a collector with IsEncrypted set (%s; %s) came up and delivered a message received over an unencrypted session", proto, b.what), map[string]string{"cell": "broken security settings: " + b.what + " / " + proto}, nil)
			case <-time.After(400 * time.Millisecond):
			}
			if err == nil {
				ep.CloseConnToCollector()
			}
			if proto == "tcp" {
				cp.Stop()
			}
		}
	}
	// security settings present but the transport spelled "tcp4"/"tcp6"/"udp4"/"udp6": whatever the
	// library makes of such a configuration, it must not talk IPFIX in clear
	for _, proto := range []string{"tcp4", "tcp6", "udp4", "udp6"} {
		n++
		host := "127.0.0.1"
		if proto[3] == '6' {
			host = "[::1]"
		}
		clear := make(chan bool, 4)
		var addr string
		var closer func()
		if proto[:3] == "tcp" {
			ln, err := net.Listen("tcp", host+":0")
			if err != nil {
				continue
			}
			addr, closer = ln.Addr().String(), func() { ln.Close() }
			go func() {
				c, err := ln.Accept()
				if err != nil {
					return
				}
				c.SetDeadline(time.Now().Add(500 * time.Millisecond))
				b := make([]byte, 64)
				k, _ := c.Read(b)
				clear <- k >= 2 && b[0] == 0 && b[1] == 10
				c.Close()
			}()
		} else {
			ua, _ := net.ResolveUDPAddr("udp", host+":0")
			u, err := net.ListenUDP("udp", ua)
			if err != nil {
				continue
			}
			addr, closer = u.LocalAddr().String(), func() { u.Close() }
			go func() {
				u.SetReadDeadline(time.Now().Add(500 * time.Millisecond))
				b := make([]byte, 2048)
				k, _, _ := u.ReadFromUDP(b)
				clear <- k >= 2 && b[0] == 0 && b[1] == 10
			}()
		}
		func() {
			defer func() { recover() }() // a nil connection inside the library is not this property's business
			ep, err := exporter.InitExportingProcess(exporter.ExporterInput{CollectorAddress: addr, CollectorProtocol: proto, ObservationDomainID: 9,
				TLSClientConfig: &exporter.ExporterTLSClientConfig{ServerName: "localhost", CAData: p.ca.PEM}})
			if err != nil || ep == nil {
				return
			}
			set := e2eCase{elems: []e2eElem{{c15ie("sourceTransportPort", 0)}}}.tmplSet(ep.NewTemplateID())
			ep.SendSet(set)
			ep.CloseConnToCollector()
		}()
		select {
		case c := <-clear:
			if c {
				rep.Report("plaintext", "plaintext-sent", fmt.Sprintf("an exporter with TLS settings and CollectorProtocol=%q sent an IPFIX message in clear to %s", proto, addr), map[string]string{"cell": "tls settings, protocol " + proto}, nil)
			}
		case <-time.After(700 * time.Millisecond):
		}
		closer()
	}
	// TLS exporter -> plaintext tcp listener; DTLS exporter -> plaintext udp socket
	n++
	ln, _ := net.Listen("tcp", "127.0.0.1:0")
	seen := make(chan []byte, 1)
	go func() {
		c, err := ln.Accept()
		if err != nil {
			seen <- nil
			return
		}
		c.SetDeadline(time.Now().Add(time.Second))
		b := make([]byte, 64)
		k, _ := c.Read(b)
		seen <- b[:k]
		c.Close()
	}()
	ep, err := exporter.InitExportingProcess(exporter.ExporterInput{CollectorAddress: ln.Addr().String(), CollectorProtocol: "tcp", ObservationDomainID: 9,
		TLSClientConfig: &exporter.ExporterTLSClientConfig{ServerName: "localhost", CAData: p.ca.PEM}})
	if err == nil {
		rep.Report("plaintext", "plaintext-session", "an exporter with TLS settings completed a session with a plaintext listener", map[string]string{"cell": "tls exporter -> plaintext listener"}, nil)
		ep.CloseConnToCollector()
	}
	if b := <-seen; len(b) >= 2 && b[0] == 0 && b[1] == 10 {
		rep.Report("plaintext", "plaintext-sent", "an exporter with TLS settings put an IPFIX header on the wire in clear", map[string]string{"cell": "tls exporter -> plaintext listener"}, nil)
	}
	ln.Close()
	n++
	u, _ := net.ListenUDP("udp", &net.UDPAddr{IP: net.ParseIP("127.0.0.1")})
	useen := make(chan []byte, 4)
	go func() {
		for {
			u.SetReadDeadline(time.Now().Add(2 * time.Second))
			b := make([]byte, 2048)
			k, _, err := u.ReadFromUDP(b)
			if err != nil {
				close(useen)
				return
			}
			useen <- b[:k]
		}
	}()
	done := make(chan struct{})
	go func() {
		ep, err := exporter.InitExportingProcess(exporter.ExporterInput{CollectorAddress: u.LocalAddr().String(), CollectorProtocol: "udp", ObservationDomainID: 9,
			TLSClientConfig: &exporter.ExporterTLSClientConfig{ServerName: "localhost", CAData: p.ca.PEM}})
		if err == nil {
			rep.Report("plaintext", "plaintext-session", "an exporter with DTLS settings completed a session with a plaintext socket", map[string]string{"cell": "dtls exporter -> plaintext socket"}, nil)
			ep.CloseConnToCollector()
		}
		close(done)
	}()
	for b := range useen {
		if len(b) >= 2 && b[0] == 0 && b[1] == 10 {
			rep.Report("plaintext", "plaintext-sent", "an exporter with DTLS settings put an IPFIX header on the wire in clear", map[string]string{"cell": "dtls exporter -> plaintext socket"}, nil)
		}
	}
	u.Close()
	return n
}

func runC18(tier, replay string) int {
	rep := common.NewReporter("C18")
	c15register()
	p := newC18PKI()
	if tier == "replay" {
		fmt.Println("C18 replays: re-run the check (certificates are minted per run); the failing cell is named in the replay file")
		tier = "quick"
	}
	var cells []c18cell
	for _, s := range c18serverKinds {
		for _, n := range c18nameKinds {
			for _, v := range c18versions {
				for _, cl := range []string{"none", "trusted"} {
					cells = append(cells, c18cell{Role: "exporter-vs-peer", Server: s, Name: n, Client: cl, Ver: v, Proto: "tls"})
				}
			}
		}
	}
	for _, cl := range c18clientKinds {
		for _, ca := range []bool{true, false} {
			for _, v := range c18versions {
				cells = append(cells, c18cell{Role: "peer-vs-collector", Server: "trusted", Name: "matching", Client: cl, CA: ca, Ver: v, Proto: "tls"})
			}
		}
	}
	for _, s := range c18serverKinds {
		for _, n := range c18nameKinds {
			for _, cl := range c18clientKinds {
				for _, ca := range []bool{true, false} {
					cells = append(cells, c18cell{Role: "library", Server: s, Name: n, Client: cl, CA: ca, Ver: tls.VersionTLS13, Proto: "tls"})
				}
			}
			cells = append(cells, c18cell{Role: "library", Server: s, Name: n, Client: "none", Ver: tls.VersionTLS12, Proto: "dtls"})
		}
	}
	// an address literal as the expected name that the certificate does not carry
	for _, v := range []uint16{tls.VersionTLS12, tls.VersionTLS13} {
		cells = append(cells, c18cell{Role: "exporter-vs-peer", Server: "trusted", Name: "mismatching-ip", Client: "none", Ver: v, Proto: "tls"})
	}
	cells = append(cells, c18cell{Role: "library", Server: "trusted", Name: "mismatching-ip", Client: "none", Ver: tls.VersionTLS13, Proto: "tls"},
		c18cell{Role: "library", Server: "trusted", Name: "mismatching-ip", Client: "none", Ver: tls.VersionTLS12, Proto: "dtls"})
	// a collector whose ServerCert holds a full chain of another CA: with a client CA configured, only that
	// client CA vouches for exporters - not the issuer of the collector's own certificate
	for _, cl := range []string{"other-ca", "trusted", "none"} {
		cells = append(cells, c18cell{Role: "peer-vs-collector", Server: "other-ca-fullchain", Name: "matching", Client: cl, CA: true, Ver: tls.VersionTLS13, Proto: "tls"})
	}
	var wg sync.WaitGroup
	var mu sync.Mutex
	idx := 0
	stuck := 0
	flowed, refused, openCells := 0, 0, 0
	var samples []interface{}
	for w := 0; w < runtime.NumCPU(); w++ {
		wg.Add(1)
		go func() {
			defer wg.Done()
			for {
				mu.Lock()
				if idx >= len(cells) {
					mu.Unlock()
					return
				}
				c := cells[idx]
				idx++
				mu.Unlock()
				got, detail, st := c18run(p, c)
				want, open := c18expect(c)
				mu.Lock()
				if st {
					stuck++
					fmt.Printf("C18: cell %s is stuck / could not be set up: %s\n", c, detail)
				} else if open {
					openCells++
				} else if got != want {
					kind := "accepted-unauthenticated-peer"
					if want {
						kind = "refused-valid-peer"
					}
					rep.Report(c.Proto+"/"+c.Role, kind, fmt.Sprintf("cell %s: expected flow=%v, observed flow=%v (%s)", c, want, got, detail), c, nil)
				}
				if got {
					flowed++
				} else {
					refused++
				}
				if len(samples) < 6 && idx%40 == 0 {
					samples = append(samples, map[string]interface{}{"cell": c.String(), "expected_flow": want, "observed_flow": got})
				}
				mu.Unlock()
			}
		}()
	}
	wg.Wait()
	nseq := c18sequences(p, rep)
	np := c18plaintext(p, rep) + nseq + c18systemStore(p, rep)
	fmt.Printf("C18 %s: cells=%d (+%d plaintext) flowed=%d refused=%d open=%d stuck=%d violations=%d\n", tier, len(cells), np, flowed, refused, openCells, stuck, rep.Violations())
	ev := &common.Evidence{PropertyID: "C18", Tier: tier}
	ev.Coverage = common.Coverage{
		"states": len(cells) + np, "transitions": len(cells) + np, "traces_validated_against_impl": len(cells) + np, "samples": samples,
		"evaluations": len(cells) + np, "distinct_nontrivial": len(cells) + np,
		"rule":       "every cell of the acceptance matrix, each a real TLS/DTLS session on loopback with certificates minted in process: library exporter vs hand-made TLS server {7 server certificate kinds x 3 ServerName settings x peer max version 1.1/1.2/1.3 x client cert none/trusted}; hand-made TLS client vs library collector {4 client certificate kinds x client-CA set/unset x max version 1.1/1.2/1.3}; library exporter vs library collector over TLS {7 x 3 x 4 client kinds x client-CA set/unset} and over DTLS {7 x 3}; plus plaintext exporter vs TLS/DTLS collector (also with six kinds of unusable security settings, which must never make the collector serve in clear) and TLS/DTLS exporter vs plaintext listener, plus two-step sequences against one long-lived server (an exporter trusting the server's CA, then one trusting a different CA only), one client configuration reused for two collectors of which the second presents the first one's certificate, and - in a child process whose system trust store holds another CA - a collector certified by that CA. Oracle (tlspolicy): messages flow <=> chain to the configured CA, inside validity, name/address match, version >= 1.2, client certificate from the client CA when one is configured. Cells are distinct by construction",
		"exhaustive": stuck == 0, "flowed": flowed, "refused": refused, "open_cells": openCells, "stuck": stuck,
	}
	ev.Assumptions = []string{"DTLS with no ServerName configured: the DTLS library checks the chain but no name; the two cells (wrong SAN, no SAN) x unset are left open", "a refused cell is observed as 'nothing delivered within 400 ms'; an accepted one must deliver within 5 s"}
	ev.WallS = common.Since(rep.Start)
	ev.Violations = rep.Violations()
	common.WriteEvidence(ev)
	if stuck > 0 {
		return 2
	}
	return rep.Finish()
}
