// Package aggfix builds flow records and aggregation-process configurations for the C05-C07/C13
// harnesses (the element lists are the ones Antrea's flow aggregator and the repository's own tests use).
package aggfix

import (
	"fmt"
	"net"

	"github.com/vmware/go-ipfix/pkg/entities"
	"github.com/vmware/go-ipfix/pkg/intermediate"
	"github.com/vmware/go-ipfix/pkg/registry"
)

var CorrelateFields = []string{
	"sourcePodName", "sourcePodNamespace", "sourceNodeName",
	"destinationPodName", "destinationPodNamespace", "destinationNodeName",
	"destinationClusterIPv4", "destinationClusterIPv6", "destinationServicePort",
	"ingressNetworkPolicyRuleAction", "egressNetworkPolicyRuleAction", "ingressNetworkPolicyRulePriority",
	"interfaceName", // an IANA element: correlate fields are whatever the application configures
}

var StatsNames = []string{"packetTotalCount", "packetDeltaCount", "octetTotalCount", "octetDeltaCount",
	"reversePacketTotalCount", "reversePacketDeltaCount", "reverseOctetTotalCount", "reverseOctetDeltaCount"}

func withSuffix(names []string, suffix string) []string {
	out := make([]string, len(names))
	for i, n := range names {
		out[i] = n + suffix
	}
	return out
}

func Elements() *intermediate.AggregationElements {
	return &intermediate.AggregationElements{
		NonStatsElements:                   []string{"flowEndSeconds", "flowEndReason", "tcpState", "httpVals"},
		StatsElements:                      append([]string{}, StatsNames...),
		AggregatedSourceStatsElements:      withSuffix(StatsNames, "FromSourceNode"),
		AggregatedDestinationStatsElements: withSuffix(StatsNames, "FromDestinationNode"),
		AntreaFlowEndSecondsElements:       []string{"flowEndSecondsFromSourceNode", "flowEndSecondsFromDestinationNode"},
		ThroughputElements:                 []string{"throughput", "reverseThroughput"},
		SourceThroughputElements:           []string{"throughputFromSourceNode", "reverseThroughputFromSourceNode"},
		DestinationThroughputElements:      []string{"throughputFromDestinationNode", "reverseThroughputFromDestinationNode"},
	}
}

type Key struct {
	V6       bool
	Src, Dst string
	SPort    uint16
	DPort    uint16
	Proto    uint8
}

var Keys = []Key{
	{false, "10.0.0.1", "10.0.0.2", 1234, 5678, 6},
	{false, "10.0.0.1", "10.0.0.2", 1234, 5679, 6},
	{true, "2001:0:3238:dfe1:63::fefb", "2001:0:3238:dfe1:63::fefc", 1234, 5678, 6},
}

func (k Key) FlowKey() intermediate.FlowKey {
	return intermediate.FlowKey{SourceAddress: net.ParseIP(k.Src).String(), DestinationAddress: net.ParseIP(k.Dst).String(), Protocol: k.Proto, SourcePort: k.SPort, DestinationPort: k.DPort}
}

// From says which node reported the record.
const (
	Both = 0 // both pod names set (intra-node; or to-external with only source set: see Spec.ToExternal)
	Src  = 1
	Dst  = 2
)

type Spec struct {
	Key      int
	FlowType uint8
	Egress   uint8
	Ingress  uint8
	From     int
	Start    uint32
	End      uint32
	// totals and deltas, forward and reverse
	PktTot, PktDelta, OctTot, OctDelta     uint64
	RPktTot, RPktDelta, ROctTot, ROctDelta uint64
	TCPState  string
	EndReason uint8
	// correlate-field values for the reporting side(s); empty = left empty
	SrcNS, SrcNode, DstNS, DstNode string
	ClusterIP                      string
	SvcPort                        uint16
	IngressPrio                    int32
	SrcPod, DstPod                 string // override; default derived from From
	// Layout 1: the record comes from an exporter whose template lists the fields in a different order
	// (e.g. another exporter version): same names, different positions
	Layout int
	// OmitHTTPVals: the record comes from an exporter whose template lacks httpVals (an element the
	// aggregation process is configured to aggregate): ingesting it into an existing flow fails part-way
	OmitHTTPVals bool
	// OmitStart: no flowStartSeconds either (a first record like this cannot be set up for aggregation)
	OmitStart bool
}

func ie(name string, ent uint32) *entities.InfoElement {
	e, err := registry.GetInfoElement(name, ent)
	if err != nil {
		panic(fmt.Sprintf("aggfix: %s/%d: %v", name, ent, err))
	}
	return e
}

// Record builds one decoded data record (as the collector would deliver it), with spare capacity for
// the fields the aggregation process appends.
func Record(s Spec) entities.Record {
	k := Keys[s.Key]
	A := registry.AntreaEnterpriseID
	R := registry.IANAReversedEnterpriseID
	els := make([]entities.InfoElementWithValue, 0, 64)
	add := func(e entities.InfoElementWithValue) { els = append(els, e) }
	if k.V6 {
		add(entities.NewIPAddressInfoElement(ie("sourceIPv6Address", 0), net.ParseIP(k.Src)))
		add(entities.NewIPAddressInfoElement(ie("destinationIPv6Address", 0), net.ParseIP(k.Dst)))
	} else {
		add(entities.NewIPAddressInfoElement(ie("sourceIPv4Address", 0), net.ParseIP(k.Src).To4()))
		add(entities.NewIPAddressInfoElement(ie("destinationIPv4Address", 0), net.ParseIP(k.Dst).To4()))
	}
	add(entities.NewUnsigned16InfoElement(ie("sourceTransportPort", 0), k.SPort))
	add(entities.NewUnsigned16InfoElement(ie("destinationTransportPort", 0), k.DPort))
	add(entities.NewUnsigned8InfoElement(ie("protocolIdentifier", 0), k.Proto))
	if !s.OmitStart {
		add(entities.NewDateTimeSecondsInfoElement(ie("flowStartSeconds", 0), s.Start))
	}
	add(entities.NewDateTimeSecondsInfoElement(ie("flowEndSeconds", 0), s.End))
	add(entities.NewUnsigned8InfoElement(ie("flowEndReason", 0), s.EndReason))
	add(entities.NewUnsigned64InfoElement(ie("packetTotalCount", 0), s.PktTot))
	add(entities.NewUnsigned64InfoElement(ie("packetDeltaCount", 0), s.PktDelta))
	add(entities.NewUnsigned64InfoElement(ie("octetTotalCount", 0), s.OctTot))
	add(entities.NewUnsigned64InfoElement(ie("octetDeltaCount", 0), s.OctDelta))
	add(entities.NewUnsigned64InfoElement(ie("reversePacketTotalCount", R), s.RPktTot))
	add(entities.NewUnsigned64InfoElement(ie("reversePacketDeltaCount", R), s.RPktDelta))
	add(entities.NewUnsigned64InfoElement(ie("reverseOctetTotalCount", R), s.ROctTot))
	add(entities.NewUnsigned64InfoElement(ie("reverseOctetDeltaCount", R), s.ROctDelta))
	srcPod, dstPod := s.SrcPod, s.DstPod
	if srcPod == "" && dstPod == "" {
		switch s.From {
		case Both:
			srcPod, dstPod = "pod-src", "pod-dst"
		case Src:
			srcPod = "pod-src"
		case Dst:
			dstPod = "pod-dst"
		}
	}
	add(entities.NewStringInfoElement(ie("sourcePodName", A), srcPod))
	add(entities.NewStringInfoElement(ie("sourcePodNamespace", A), s.SrcNS))
	add(entities.NewStringInfoElement(ie("sourceNodeName", A), s.SrcNode))
	add(entities.NewStringInfoElement(ie("destinationPodName", A), dstPod))
	add(entities.NewStringInfoElement(ie("destinationPodNamespace", A), s.DstNS))
	add(entities.NewStringInfoElement(ie("destinationNodeName", A), s.DstNode))
	ifName := ""
	if s.DstNode != "" {
		ifName = "if-of-" + s.DstNode // known to the destination node only
	}
	add(entities.NewStringInfoElement(ie("interfaceName", 0), ifName))
	if k.V6 {
		ip := net.IP(make([]byte, 16))
		if s.ClusterIP != "" {
			ip = net.ParseIP(s.ClusterIP)
		}
		add(entities.NewIPAddressInfoElement(ie("destinationClusterIPv6", A), ip))
	} else {
		ip := net.IP(make([]byte, 4))
		if s.ClusterIP != "" {
			ip = net.ParseIP(s.ClusterIP).To4()
		}
		add(entities.NewIPAddressInfoElement(ie("destinationClusterIPv4", A), ip))
	}
	add(entities.NewUnsigned16InfoElement(ie("destinationServicePort", A), s.SvcPort))
	add(entities.NewUnsigned8InfoElement(ie("flowType", A), s.FlowType))
	add(entities.NewUnsigned8InfoElement(ie("ingressNetworkPolicyRuleAction", A), s.Ingress))
	add(entities.NewUnsigned8InfoElement(ie("egressNetworkPolicyRuleAction", A), s.Egress))
	add(entities.NewSigned32InfoElement(ie("ingressNetworkPolicyRulePriority", A), s.IngressPrio))
	add(entities.NewStringInfoElement(ie("tcpState", A), s.TCPState))
	if !s.OmitHTTPVals {
		add(entities.NewStringInfoElement(ie("httpVals", A), ""))
	}
	if s.Layout == 1 {
		// rotate everything after the flow key and reverse the tail
		n := len(els)
		out := make([]entities.InfoElementWithValue, 0, cap(els))
		out = append(out, els[:5]...)
		for i := n - 1; i >= 5; i-- {
			out = append(out, els[i])
		}
		els = out
	}
	return entities.NewDataRecordFromElements(256, els, true)
}

// Msg wraps records in a decoded data message.
func Msg(records ...entities.Record) *entities.Message {
	set := entities.NewSet(true)
	if err := set.PrepareSet(entities.Data, 256); err != nil {
		panic(err)
	}
	for _, r := range records {
		if err := set.AddRecordV2(r.GetOrderedElementList(), 256); err != nil {
			panic(err)
		}
	}
	m := entities.NewMessage(true)
	m.SetVersion(10)
	m.SetObsDomainID(1)
	m.SetExportAddress("10.9.9.9")
	m.AddSet(set)
	return m
}

// U64 / U32 / Str read a named field of a record (ok=false when absent).
func U64(r entities.Record, name string) (uint64, bool) {
	e, _, ok := r.GetInfoElementWithValue(name)
	if !ok {
		return 0, false
	}
	return e.GetUnsigned64Value(), true
}

func U32(r entities.Record, name string) (uint32, bool) {
	e, _, ok := r.GetInfoElementWithValue(name)
	if !ok {
		return 0, false
	}
	return e.GetUnsigned32Value(), true
}

func Str(r entities.Record, name string) (string, bool) {
	e, _, ok := r.GetInfoElementWithValue(name)
	if !ok {
		return "", false
	}
	return e.GetStringValue(), true
}
