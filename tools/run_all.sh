#!/bin/bash
# run_all.sh [tier]: every registered check once on the current tree; summary of exit codes.
T=${1:-quick}
cd /verif
for id in $(python3 -c "import json;print(' '.join(c['property_id'] for c in json.load(open('MANIFEST.json'))['checks']))"); do
  s=$(date +%s); ./check $id $T > /tmp/run_all.$id.log 2>&1; rc=$?; e=$(( $(date +%s) - s ))
  echo "$id exit=$rc ${e}s $(grep -c '^VIOLATION' /tmp/run_all.$id.log) violations $(grep -c '^KNOWN-FINDING' /tmp/run_all.$id.log) known"
done
