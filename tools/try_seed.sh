#!/bin/bash
# try_seed.sh <seed-dir-name> <Cxx> [tier]: apply a stored seeded change to /repo, run one check, undo it.
set -u
S=/verif/seeded/$1; C=$2; T=${3:-quick}
git -C /repo diff --quiet || { echo "/repo has local changes"; exit 2; }
git -C /repo apply $S/patch.diff || exit 2
/verif/check $C $T > /tmp/try_seed.$1.$C.log 2>&1; RC=$?
git -C /repo checkout -- .
echo "SEED $1 check $C $T: exit=$RC $(grep -c '^VIOLATION' /tmp/try_seed.$1.$C.log) violation lines; first: $(grep -A1 '^VIOLATION' /tmp/try_seed.$1.$C.log | sed -n 2p | cut -c1-220)"
exit $RC
