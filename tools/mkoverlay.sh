#!/bin/bash
# mkoverlay.sh <flavour> <workdir>: writes <workdir>/overlay.json for go build -overlay.
set -eu
FL=$1; W=$2
mkdir -p "$W"
case "$FL" in
plain|c20)
  cat > "$W/overlay.json" <<JSON
{"Replace": {
 "/repo/pkg/collector/zz_verif_hooks.go": "/verif/hooks/collector_hooks.go",
 "/repo/pkg/exporter/zz_verif_hooks.go": "/verif/hooks/exporter_hooks.go",
 "/repo/pkg/intermediate/zz_verif_hooks.go": "/verif/hooks/intermediate_hooks.go",
 "/repo/cmd/collector/zz_verif_driver_test.go": "/verif/hooks/c20_driver_test.go"
}}
JSON
  ;;
shim)
  /verif/.work/bin/verifgen -repo /repo -out "$W" -hooks /verif/hooks -shim /verif/shim
  ;;
esac
