#!/usr/bin/env python3
# merges the shard outputs of the C20 driver, writes /verif/evidence/C20.json, prints the interface lines
import sys, json, time, hashlib, os
W, tier, n, start = sys.argv[1], sys.argv[2], int(sys.argv[3]), float(sys.argv[4])
hist = trans = 0
viols, samples = [], []
infra = False
for i in range(n):
    got = False
    for line in open(f"{W}/c20.out.{i}", errors="replace"):
        if line.startswith("C20RESULT "):
            r = json.loads(line[10:]); got = True
            hist += r["Histories"]; trans += r["Transitions"]
            viols += r.get("Violations") or []
            samples += r.get("Samples") or []
        elif line.startswith("C20VIOLATION "):
            viols.append(json.loads(line[13:]))
    if not got:
        infra = True
        sys.stderr.write(f"C20 shard {i} produced no result:\n" + open(f"{W}/c20.out.{i}", errors="replace").read()[-2000:] + "\n")
known = {}
try:
    kf = json.load(open("/verif/known_findings.json"))["findings"]
except Exception:
    kf = []
def match(v):
    for f in kf:
        if f["status"] == "known" and f["property"] == "C20" and f["kind"] == v["kind"] and (not f.get("contains") or f["contains"] in v["detail"]):
            return f
    return None
seen, nviol = set(), 0
viols.sort(key=lambda v: len(v.get("hist", [])))
for v in viols:
    f = match(v)
    if f:
        known[f["id"]] = known.get(f["id"], 0) + 1
        continue
    k = v["kind"] + "|" + v["detail"].split(": ")[-1][:80]
    if k in seen: continue
    seen.add(k); nviol += 1
    if nviol <= 10:
        rep = {"property": "C20", "scenario": "standalone-collector", "kind": v["kind"], "detail": v["detail"], "trace": {"start": v.get("start", 0), "hist": v.get("hist", [])}}
        b = json.dumps(rep, indent=1)
        os.makedirs("/verif/replays", exist_ok=True)
        p = "/verif/replays/C20-%s.json" % hashlib.sha1(b.encode()).hexdigest()[:10]
        open(p, "w").write(b)
        print(f"VIOLATION property=C20 replay={p}")
        print(f"  kind={v['kind']} detail={v['detail'][:400]}")
for i, c in known.items():
    what = [f["what"] for f in kf if f["id"] == i][0]
    print(f"KNOWN-FINDING: property=C20 {i}: {what} (matched {c} explored cases)")
print(f"C20 {tier}: histories={hist} transitions={trans} violations={nviol}")
ev = {"property_id": "C20", "tier": tier, "seed": int(os.environ.get("VERIF_SEED", "0") or 0), "level": "model_checking",
      "coverage": {"states": max(hist, 1), "transitions": max(trans, 1), "traces_validated_against_impl": hist, "samples": samples[:6] or ["none"],
                   "evaluations": max(hist, 1), "distinct_nontrivial": max(hist, 2),
                   "rule": "every history up to the plan's depth over 29 operations {arrival of a template message, of a data message with one field of every renderable type (one of them a string full of %-sequences, control characters and quotes), of a data message with 2 records that carry one element twice, of a data message with 3000 records; GET /records with count in {absent,0,1,2,4096,4097,-1,x or a negative number below the smallest int} x format in {json,text} plus default/xml variants; wrong methods; POST /reset; a records query during whose response three messages arrive as early as the store's lock lets them} from start states of 0, 1, 4095 and 4096 stored entries (thorough also 2), the large ones cut from a store that has really seen 3x4096+5 arrivals; run by a driver injected into package main, handlers called directly with httptest recorders, against a window model (last min(4096, arrivals since reset) entries in order); every arrival's rendered entry must show each field as name: value. Histories are distinct by construction",
                   "exhaustive": not infra},
      "assumptions": ["handlers are driven directly (no HTTP server, no signal handler goroutine): the statement is about store and handlers", "an octet-array value may be rendered in any byte notation"],
      "wall_s": round(time.time() - start, 2), "violations": nviol}
os.makedirs("/verif/evidence", exist_ok=True)
open("/verif/evidence/C20.json", "w").write(json.dumps(ev, indent=1))
sys.exit(1 if nviol else (2 if infra else 0))
