#!/bin/bash
# Runs exactly the stable baseline tests (BASELINE.json stable_pass) of /repo (or $1) with the guard off.
# The repository also contains TLS/DTLS/Kafka-TLS tests that hang or fail offline in the pristine tree;
# they are not part of the baseline and are excluded here so that a run takes about a minute.
REPO=${1:-/repo}
export GOFLAGS=-mod=mod GOPROXY=off GOSUMDB=off GOTOOLCHAIN=local
cd "$REPO" || exit 2
python3 - <<'PY' > /tmp/.baseline_pkgs.$$
import json,collections
b=json.load(open('/root/.vp/BASELINE.json'))
pk=collections.defaultdict(set)
for t in b['stable_pass']:
    p,n=t.split('::'); pk[p].add(n.split('/')[0])
for p,ns in sorted(pk.items()):
    print(p.replace('github.com/vmware/go-ipfix','.'), '^(' + '|'.join(sorted(ns)) + ')$')
PY
RC=0
while read -r pkg re; do
  go test -vet=off -count=1 -timeout 300s -run "$re" "$pkg" || RC=1
done < /tmp/.baseline_pkgs.$$
rm -f /tmp/.baseline_pkgs.$$
exit $RC
