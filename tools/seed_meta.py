#!/usr/bin/env python3
# seed_meta.py <seed> <property> <detected_by> "<needs>" ["<note>"] : writes /verif/seeded/<seed>/meta.json
import json,sys,os
seed,prop,det,needs=sys.argv[1:5]
note=sys.argv[5] if len(sys.argv)>5 else ""
d='/verif/seeded/'+seed
pkg=open(d+'/demo_pkg.txt').read().strip() if os.path.exists(d+'/demo_pkg.txt') else ''
meta={"seed":seed,"breaks_property":prop,"needs_to_manifest":needs,
 "confirmed_by":"tools/verify_seed.sh in a scratch worktree at /repo HEAD: patch applies, stable baseline tests (tools/run_baseline.sh) pass with it, demo test (copied into %s) fails with it and passes without"%pkg,
 "detected_by":det.split(','),"note":note,
 "how_checked":"tools/try_seed.sh %s <check> quick  (git -C /repo apply patch.diff; ./check <check> quick; git -C /repo checkout -- .)"%seed}
json.dump(meta,open(d+'/meta.json','w'),indent=1)
