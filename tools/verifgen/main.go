// Command verifgen produces the "shim" build flavour: for every non-test file of pkg/collector,
// pkg/exporter and pkg/intermediate it writes a mechanically rewritten copy (see DESIGN.md §2 and
// Appendix A) and an overlay.json that substitutes the copies for the originals, adds the hook files and
// maps the virtual package tree pkg/verifshim/* to /verif/shim/*.
//
// The rewrite is type-directed and semantics-preserving:
//   - imports sync, sync/atomic, time, net  -> vsync, vatomic, vtime, vnet (same local names)
//   - go f(a...)                             -> vsched.Go(func(){ f(tmp...) }) with args evaluated in place
//   - ch <- v, <-ch, v,ok := <-ch, close(ch), select, for range ch -> vsched helpers
//   - for k, v := range m (m a map)          -> iteration over vsched.MapKeys(m) (sorted)
//   - addressable field selectors of structs declared in these packages -> *vsched.R(&x.f) / *vsched.W(&x.f)
//   - every loop body starts with vsched.Tick()
//
// An unsupported construct is a hard error (exit 2), never a silent pass-through.
package main

import (
	"bytes"
	"encoding/json"
	"flag"
	"fmt"
	"go/ast"
	"go/format"
	"go/token"
	"go/types"
	"os"
	"path/filepath"
	"strconv"
	"strings"

	"golang.org/x/tools/go/ast/astutil"
	"golang.org/x/tools/go/packages"
)

const shimBase = "github.com/vmware/go-ipfix/pkg/verifshim/"

var importMap = map[string]string{
	"sync":        shimBase + "vsync",
	"sync/atomic": shimBase + "vatomic",
	"time":        shimBase + "vtime",
	"net":         shimBase + "vnet",
}

var defaultName = map[string]string{"sync": "sync", "sync/atomic": "atomic", "time": "time", "net": "net"}

var targetPkgs = []string{"pkg/collector", "pkg/exporter", "pkg/intermediate", "pkg/entities"}

func fatal(format string, a ...interface{}) {
	fmt.Fprintf(os.Stderr, "verifgen: "+format+"\n", a...)
	os.Exit(2)
}

type rewriter struct {
	fset    *token.FileSet
	info    *types.Info
	pkgSet  map[string]bool
	file    *ast.File
	tmpN    int
	usedVS  bool
	tryLock bool // the file calls TryLock / TryRLock
	fname   string
}

func (r *rewriter) tmp(prefix string) string {
	r.tmpN++
	return fmt.Sprintf("__%s%d", prefix, r.tmpN)
}

func vs(name string) ast.Expr {
	return &ast.SelectorExpr{X: ast.NewIdent("vsched"), Sel: ast.NewIdent(name)}
}

func call(fun ast.Expr, args ...ast.Expr) *ast.CallExpr { return &ast.CallExpr{Fun: fun, Args: args} }

func strLit(s string) ast.Expr { return &ast.BasicLit{Kind: token.STRING, Value: strconv.Quote(s)} }

func (r *rewriter) pos(n ast.Node) string {
	p := r.fset.Position(n.Pos())
	return fmt.Sprintf("%s:%d", filepath.Base(p.Filename), p.Line)
}

func isChan(t types.Type) bool {
	if t == nil {
		return false
	}
	_, ok := t.Underlying().(*types.Chan)
	return ok
}

func isMap(t types.Type) bool {
	if t == nil {
		return false
	}
	_, ok := t.Underlying().(*types.Map)
	return ok
}

// trackableElem: slice elements worth tracking for races (pointers, interfaces, structs, ...), not
// bytes/numbers/strings (byte-level instrumentation of the codecs would cost orders of magnitude).
func trackableElem(t types.Type) bool {
	if t == nil {
		return false
	}
	sl, ok := t.Underlying().(*types.Slice)
	if !ok {
		return false
	}
	_, basic := sl.Elem().Underlying().(*types.Basic)
	return !basic
}

// pureExpr: identifiers, selectors, derefs, parens and our own R/W wrappers - no calls with effects.
func pureExpr(e ast.Expr) bool {
	switch v := e.(type) {
	case *ast.Ident:
		return true
	case *ast.SelectorExpr:
		return pureExpr(v.X)
	case *ast.ParenExpr:
		return pureExpr(v.X)
	case *ast.StarExpr:
		return pureExpr(v.X)
	case *ast.UnaryExpr:
		return v.Op == token.AND && pureExpr(v.X)
	case *ast.IndexExpr:
		return pureExpr(v.X) && pureExpr(v.Index)
	case *ast.BasicLit:
		return true
	case *ast.CallExpr:
		// vsched.R / vsched.W wrappers produced by this rewriter
		if se, ok := v.Fun.(*ast.SelectorExpr); ok {
			if id, ok := se.X.(*ast.Ident); ok && id.Name == "vsched" && (se.Sel.Name == "R" || se.Sel.Name == "W") && len(v.Args) == 2 {
				return pureExpr(v.Args[0])
			}
		}
	}
	return false
}

// isSyncType: the field's type comes from sync / sync/atomic (modelled objects, not data).
func isSyncType(t types.Type) bool {
	for {
		if p, ok := t.(*types.Pointer); ok {
			t = p.Elem()
			continue
		}
		break
	}
	if n, ok := t.(*types.Named); ok && n.Obj().Pkg() != nil {
		p := n.Obj().Pkg().Path()
		return p == "sync" || p == "sync/atomic"
	}
	return false
}

// fieldSel reports whether e is an addressable selector of a field of a struct declared in the
// target packages, and returns a description.
func (r *rewriter) fieldSel(e ast.Expr) (string, bool) {
	sel, ok := e.(*ast.SelectorExpr)
	if !ok {
		return "", false
	}
	s := r.info.Selections[sel]
	if s == nil || s.Kind() != types.FieldVal {
		return "", false
	}
	obj := s.Obj()
	if obj.Pkg() == nil || !r.pkgSet[obj.Pkg().Path()] {
		return "", false
	}
	if isSyncType(obj.Type()) {
		return "", false
	}
	tv, ok := r.info.Types[sel]
	if !ok || !tv.Addressable() {
		return "", false
	}
	recv := s.Recv()
	for {
		if p, ok := recv.(*types.Pointer); ok {
			recv = p.Elem()
			continue
		}
		break
	}
	name := types.TypeString(recv, func(p *types.Package) string { return p.Name() })
	return fmt.Sprintf("%s.%s %s", name, obj.Name(), r.pos(sel)), true
}

func (r *rewriter) wrap(e ast.Expr, write bool, where string) ast.Expr {
	r.usedVS = true
	fn := "R"
	if write {
		fn = "W"
	}
	return &ast.ParenExpr{X: &ast.StarExpr{X: call(vs(fn), &ast.UnaryExpr{Op: token.AND, X: e}, strLit(where))}}
}

// containsNode reports whether root contains target.
func containsNode(root ast.Node, target ast.Node) bool {
	found := false
	ast.Inspect(root, func(n ast.Node) bool {
		if n == target {
			found = true
		}
		return !found
	})
	return found
}

// isPkgMapVar: e names a package-level variable of map type (of this or another package).
func (r *rewriter) isPkgMapVar(e ast.Expr) bool {
	var id *ast.Ident
	switch v := e.(type) {
	case *ast.Ident:
		id = v
	case *ast.SelectorExpr:
		if _, isPkg := r.info.Uses[identOf(v.X)].(*types.PkgName); !isPkg {
			return false
		}
		id = v.Sel
	default:
		return false
	}
	obj, ok := r.info.Uses[id].(*types.Var)
	if !ok || obj.IsField() || obj.Parent() == nil || obj.Pkg() == nil || obj.Parent() != obj.Pkg().Scope() {
		return false
	}
	return isMap(obj.Type())
}

func identOf(e ast.Expr) *ast.Ident {
	id, _ := e.(*ast.Ident)
	return id
}

// lhsBase: for an assignment target like x.f, x.f[k], x.f[k][j] returns the selector that is being
// written *through a map* or directly.
func (r *rewriter) markWrites(lhs ast.Expr, writes map[ast.Expr]bool) {
	e := lhs
	for {
		switch v := e.(type) {
		case *ast.ParenExpr:
			e = v.X
			continue
		case *ast.IndexExpr:
			// storing into a map element mutates the map; storing into a slice/array element does not
			// touch the header (elements are distinct memory the detector does not track)
			if tv, ok := r.info.Types[v.X]; ok && isMap(tv.Type) {
				writes[v] = true // (for maps held in package-level variables, see pkgMapIdx)
				e = v.X
				continue
			}
			writes[v] = true // a slice element is written
			return
		case *ast.SelectorExpr:
			writes[v] = true
			return
		default:
			return
		}
	}
}

func (r *rewriter) rewriteFile() {
	writes := map[ast.Expr]bool{}  // selectors in write position
	skip := map[ast.Expr]bool{}    // selectors not to wrap (operand of &, handled specially)
	rangeKind := map[*ast.RangeStmt]string{}
	atomicArg := map[*ast.UnaryExpr]bool{}
	trackIdx := map[*ast.IndexExpr]bool{}   // s[i] with s a slice of trackable elements, addressable
	trackAppend := map[*ast.CallExpr]bool{} // append(s, ...) on such a slice
	addrOf := map[ast.Expr]bool{}           // operands of & (left alone)
	pkgMapIdx := map[*ast.IndexExpr]bool{}  // m[k] with m a package-level map variable (one location for the race detector)
	pkgMapDel := map[*ast.CallExpr]bool{}   // delete(m, k) on such a map
	// pre-pass: classify contexts on the original tree
	ast.Inspect(r.file, func(n ast.Node) bool {
		switch v := n.(type) {
		case *ast.AssignStmt:
			if v.Tok != token.DEFINE {
				for _, l := range v.Lhs {
					r.markWrites(l, writes)
				}
			}
		case *ast.IncDecStmt:
			r.markWrites(v.X, writes)
		case *ast.RangeStmt:
			if tv, ok := r.info.Types[v.X]; ok {
				if isMap(tv.Type) {
					rangeKind[v] = "map"
				} else if isChan(tv.Type) {
					rangeKind[v] = "chan"
				} else if trackableElem(tv.Type) && !isBlank(v.Value) {
					rangeKind[v] = "slice"
				}
			}
			if v.Tok == token.ASSIGN {
				if v.Key != nil {
					r.markWrites(v.Key, writes)
				}
				if v.Value != nil {
					r.markWrites(v.Value, writes)
				}
			}
		case *ast.CallExpr:
			if se, ok := v.Fun.(*ast.SelectorExpr); ok && (se.Sel.Name == "TryLock" || se.Sel.Name == "TryRLock") && len(v.Args) == 0 {
				r.tryLock = true
			}
			if id, ok := v.Fun.(*ast.Ident); ok && id.Name == "delete" && len(v.Args) == 2 {
				if _, isBuiltin := r.info.Uses[id].(*types.Builtin); isBuiltin {
					if r.isPkgMapVar(v.Args[0]) {
						pkgMapDel[v] = true
					}
					r.markWrites(v.Args[0], writes)
				}
			}
			if id, ok := v.Fun.(*ast.Ident); ok && id.Name == "append" && len(v.Args) >= 1 {
				if _, isBuiltin := r.info.Uses[id].(*types.Builtin); isBuiltin {
					if tv, ok := r.info.Types[v.Args[0]]; ok && trackableElem(tv.Type) {
						trackAppend[v] = true
					}
				}
			}
			// &x.f handed to a sync/atomic function is an atomic access, not a plain write
			if se, ok := v.Fun.(*ast.SelectorExpr); ok {
				if pid, ok := se.X.(*ast.Ident); ok {
					if pn, ok := r.info.Uses[pid].(*types.PkgName); ok && pn.Imported().Path() == "sync/atomic" {
						for _, a := range v.Args {
							if u, ok := a.(*ast.UnaryExpr); ok && u.Op == token.AND {
								atomicArg[u] = true
							}
						}
					}
				}
			}
		case *ast.IndexExpr:
			if tv, ok := r.info.Types[v.X]; ok && trackableElem(tv.Type) {
				if etv, ok := r.info.Types[v]; ok && etv.Addressable() {
					trackIdx[v] = true
				}
			}
			if r.isPkgMapVar(v.X) {
				pkgMapIdx[v] = true
			}
		case *ast.UnaryExpr:
			if v.Op == token.AND {
				addrOf[v.X] = true
				x := v.X
				for {
					if p, ok := x.(*ast.ParenExpr); ok {
						x = p.X
						continue
					}
					break
				}
				if _, ok := r.fieldSel(x); ok {
					skip[x] = true
				}
			}
		}
		return true
	})

	post := func(c *astutil.Cursor) bool {
		switch n := c.Node().(type) {
		case *ast.SelectorExpr:
			where, ok := r.fieldSel(n)
			if !ok {
				return true
			}
			if skip[n] {
				return true // parent & handles it
			}
			// a selector used as the Fun of a call is a method value/func field read: x.f(...) where f is a func-typed field
			c.Replace(r.wrap(n, writes[n], where))
		case *ast.UnaryExpr:
			if n.Op == token.AND {
				x := n.X
				for {
					if p, ok := x.(*ast.ParenExpr); ok {
						x = p.X
						continue
					}
					break
				}
				if atomicArg[n] {
					return true
				}
				if where, ok := r.fieldSel(x); ok && skip[x] {
					// &x.f: the address escapes to a callee that may mutate through it
					r.usedVS = true
					c.Replace(call(vs("W"), n, strLit(where)))
				}
				return true
			}
			if n.Op == token.ARROW {
				r.usedVS = true
				// v, ok := <-ch is handled at the AssignStmt/ValueSpec level
				if as, ok := c.Parent().(*ast.AssignStmt); ok && len(as.Lhs) == 2 && len(as.Rhs) == 1 && as.Rhs[0] == n {
					c.Replace(call(vs("Recv2"), n.X))
				} else if vsp, ok := c.Parent().(*ast.ValueSpec); ok && len(vsp.Names) == 2 && len(vsp.Values) == 1 {
					c.Replace(call(vs("Recv2"), n.X))
				} else {
					c.Replace(call(vs("Recv"), n.X))
				}
			}
		case *ast.IndexExpr:
			if trackIdx[n] && !addrOf[n] {
				c.Replace(r.wrap(n, writes[n], "element "+r.pos(n)))
			}
			if pkgMapIdx[n] {
				r.usedVS = true
				fn := "MapR"
				if writes[n] {
					fn = "MapW"
				}
				n.X = call(vs(fn), n.X, strLit("map "+r.pos(n)))
			}
		case *ast.SendStmt:
			r.usedVS = true
			c.Replace(&ast.ExprStmt{X: call(vs("Send"), n.Chan, n.Value)})
		case *ast.CallExpr:
			if trackAppend[n] && pureExpr(n.Args[0]) {
				// vsched.Appended(where, s, append(s, ...)): the elements beyond len(s) are writes. The
				// slice expression is evaluated twice, so only side-effect-free expressions are rewritten.
				r.usedVS = true
				inner := &ast.CallExpr{Fun: n.Fun, Args: n.Args, Ellipsis: n.Ellipsis}
				c.Replace(call(vs("Appended"), strLit("append "+r.pos(n)), n.Args[0], inner))
				return true
			}
			if pkgMapDel[n] {
				r.usedVS = true
				n.Args[0] = call(vs("MapW"), n.Args[0], strLit("map "+r.pos(n)))
			}
			if id, ok := n.Fun.(*ast.Ident); ok && id.Name == "close" && len(n.Args) == 1 {
				if _, isBuiltin := r.info.Uses[id].(*types.Builtin); isBuiltin {
					r.usedVS = true
					n.Fun = vs("Close")
				}
			}
		case *ast.GoStmt:
			r.usedVS = true
			c.Replace(r.rewriteGo(n))
		case *ast.SelectStmt:
			r.usedVS = true
			c.Replace(r.rewriteSelect(n))
		case *ast.ForStmt:
			r.usedVS = true
			n.Body.List = append([]ast.Stmt{&ast.ExprStmt{X: call(vs("Tick"))}}, n.Body.List...)
		case *ast.RangeStmt:
			r.usedVS = true
			switch rangeKind[n] {
			case "map":
				c.Replace(r.rewriteMapRange(n))
			case "chan":
				c.Replace(r.rewriteChanRange(n))
			case "slice":
				c.Replace(r.rewriteSliceRange(n))
			default:
				n.Body.List = append([]ast.Stmt{&ast.ExprStmt{X: call(vs("Tick"))}}, n.Body.List...)
			}
		case *ast.LabeledStmt:
			// a label must keep labelling the loop/select statement; our replacements wrap loops in blocks
			switch n.Stmt.(type) {
			case *ast.BlockStmt:
				fatal("%s: labelled select/range statements are not supported by the rewriter", r.pos(n))
			}
		}
		return true
	}
	astutil.Apply(r.file, nil, post)
}

func (r *rewriter) rewriteGo(g *ast.GoStmt) ast.Stmt {
	name := strLit(r.pos(g))
	if fl, ok := g.Call.Fun.(*ast.FuncLit); ok && len(g.Call.Args) == 0 {
		return &ast.ExprStmt{X: call(vs("Go"), name, fl)}
	}
	var stmts []ast.Stmt
	var args []ast.Expr
	fun := g.Call.Fun
	if _, ok := fun.(*ast.FuncLit); !ok {
		f := r.tmp("f")
		stmts = append(stmts, &ast.AssignStmt{Lhs: []ast.Expr{ast.NewIdent(f)}, Tok: token.DEFINE, Rhs: []ast.Expr{fun}})
		fun = ast.NewIdent(f)
	}
	for _, a := range g.Call.Args {
		t := r.tmp("a")
		stmts = append(stmts, &ast.AssignStmt{Lhs: []ast.Expr{ast.NewIdent(t)}, Tok: token.DEFINE, Rhs: []ast.Expr{a}})
		args = append(args, ast.NewIdent(t))
	}
	inner := &ast.CallExpr{Fun: fun, Args: args, Ellipsis: g.Call.Ellipsis}
	body := &ast.FuncLit{Type: &ast.FuncType{Params: &ast.FieldList{}}, Body: &ast.BlockStmt{List: []ast.Stmt{&ast.ExprStmt{X: inner}}}}
	stmts = append(stmts, &ast.ExprStmt{X: call(vs("Go"), name, body)})
	return &ast.BlockStmt{List: stmts}
}

func (r *rewriter) rewriteSelect(s *ast.SelectStmt) ast.Stmt {
	var pre []ast.Stmt
	var cases []ast.Expr
	var clauses []ast.Stmt
	hasDefault := false
	res := r.tmp("sel")
	idx := 0
	for _, cs := range s.Body.List {
		cc := cs.(*ast.CommClause)
		if cc.Comm == nil {
			hasDefault = true
			clauses = append(clauses, &ast.CaseClause{List: []ast.Expr{&ast.BasicLit{Kind: token.INT, Value: "-1"}}, Body: cc.Body})
			continue
		}
		chTmp := r.tmp("c")
		var body []ast.Stmt
		switch comm := cc.Comm.(type) {
		case *ast.ExprStmt:
			// after the post-order pass `<-ch` has become vsched.Recv(ch); `ch <- v` vsched.Send(ch, v)
			ce, ok := comm.X.(*ast.CallExpr)
			if !ok {
				fatal("%s: unexpected select case", r.pos(cc))
			}
			fn := ce.Fun.(*ast.SelectorExpr).Sel.Name
			switch fn {
			case "Recv":
				pre = append(pre, &ast.AssignStmt{Lhs: []ast.Expr{ast.NewIdent(chTmp)}, Tok: token.DEFINE, Rhs: []ast.Expr{ce.Args[0]}})
				cases = append(cases, call(vs("CaseRecv"), ast.NewIdent(chTmp)))
			case "Send":
				pre = append(pre, &ast.AssignStmt{Lhs: []ast.Expr{ast.NewIdent(chTmp)}, Tok: token.DEFINE, Rhs: []ast.Expr{ce.Args[0]}})
				cases = append(cases, call(vs("CaseSend"), ast.NewIdent(chTmp), ce.Args[1]))
			default:
				fatal("%s: unexpected select case call %s", r.pos(cc), fn)
			}
		case *ast.AssignStmt:
			ce, ok := comm.Rhs[0].(*ast.CallExpr)
			if !ok {
				fatal("%s: unexpected select receive", r.pos(cc))
			}
			pre = append(pre, &ast.AssignStmt{Lhs: []ast.Expr{ast.NewIdent(chTmp)}, Tok: token.DEFINE, Rhs: []ast.Expr{ce.Args[0]}})
			cases = append(cases, call(vs("CaseRecv"), ast.NewIdent(chTmp)))
			fn := "SelRecv"
			if len(comm.Lhs) == 2 {
				fn = "SelRecv2"
			}
			body = append(body, &ast.AssignStmt{Lhs: comm.Lhs, Tok: comm.Tok, Rhs: []ast.Expr{call(vs(fn), ast.NewIdent(chTmp), ast.NewIdent(res))}})
			if comm.Tok == token.DEFINE {
				// keep "declared and not used" from firing when the original body ignores the variable
				for _, l := range comm.Lhs {
					if id, ok := l.(*ast.Ident); ok && id.Name != "_" {
						body = append(body, &ast.AssignStmt{Lhs: []ast.Expr{ast.NewIdent("_")}, Tok: token.ASSIGN, Rhs: []ast.Expr{ast.NewIdent(id.Name)}})
					}
				}
			}
		default:
			fatal("%s: unsupported select communication", r.pos(cc))
		}
		body = append(body, cc.Body...)
		clauses = append(clauses, &ast.CaseClause{List: []ast.Expr{&ast.BasicLit{Kind: token.INT, Value: strconv.Itoa(idx)}}, Body: body})
		idx++
	}
	def := "false"
	if hasDefault {
		def = "true"
	}
	args := append([]ast.Expr{ast.NewIdent(def)}, cases...)
	stmts := append(pre, &ast.AssignStmt{Lhs: []ast.Expr{ast.NewIdent(res)}, Tok: token.DEFINE, Rhs: []ast.Expr{call(vs("Select"), args...)}})
	stmts = append(stmts, &ast.SwitchStmt{Tag: &ast.SelectorExpr{X: ast.NewIdent(res), Sel: ast.NewIdent("Index")}, Body: &ast.BlockStmt{List: clauses}})
	return &ast.BlockStmt{List: stmts}
}

func isBlank(e ast.Expr) bool {
	if e == nil {
		return true
	}
	id, ok := e.(*ast.Ident)
	return ok && id.Name == "_"
}

func (r *rewriter) rewriteMapRange(n *ast.RangeStmt) ast.Stmt {
	m := r.tmp("m")
	k := r.tmp("k")
	okv := r.tmp("ok")
	var body []ast.Stmt
	body = append(body, &ast.ExprStmt{X: call(vs("Tick"))})
	valLhs := ast.Expr(ast.NewIdent("_"))
	tok := n.Tok
	if tok == token.ILLEGAL {
		tok = token.DEFINE
	}
	if !isBlank(n.Key) {
		body = append(body, &ast.AssignStmt{Lhs: []ast.Expr{n.Key}, Tok: tok, Rhs: []ast.Expr{ast.NewIdent(k)}})
		if tok == token.DEFINE {
			body = append(body, &ast.AssignStmt{Lhs: []ast.Expr{ast.NewIdent("_")}, Tok: token.ASSIGN, Rhs: []ast.Expr{n.Key}})
		}
	}
	if !isBlank(n.Value) {
		valLhs = n.Value
	}
	// presence test: entries deleted during the iteration are not produced
	if isBlank(n.Value) {
		body = append(body, &ast.AssignStmt{Lhs: []ast.Expr{ast.NewIdent("_"), ast.NewIdent(okv)}, Tok: token.DEFINE,
			Rhs: []ast.Expr{&ast.IndexExpr{X: ast.NewIdent(m), Index: ast.NewIdent(k)}}})
	} else if tok == token.DEFINE {
		body = append(body, &ast.AssignStmt{Lhs: []ast.Expr{valLhs, ast.NewIdent(okv)}, Tok: token.DEFINE,
			Rhs: []ast.Expr{&ast.IndexExpr{X: ast.NewIdent(m), Index: ast.NewIdent(k)}}})
		body = append(body, &ast.AssignStmt{Lhs: []ast.Expr{ast.NewIdent("_")}, Tok: token.ASSIGN, Rhs: []ast.Expr{valLhs}})
	} else {
		body = append(body, &ast.DeclStmt{Decl: &ast.GenDecl{Tok: token.VAR, Specs: []ast.Spec{&ast.ValueSpec{Names: []*ast.Ident{ast.NewIdent(okv)}, Type: ast.NewIdent("bool")}}}})
		body = append(body, &ast.AssignStmt{Lhs: []ast.Expr{valLhs, ast.NewIdent(okv)}, Tok: token.ASSIGN,
			Rhs: []ast.Expr{&ast.IndexExpr{X: ast.NewIdent(m), Index: ast.NewIdent(k)}}})
	}
	body = append(body, &ast.IfStmt{Cond: &ast.UnaryExpr{Op: token.NOT, X: ast.NewIdent(okv)}, Body: &ast.BlockStmt{List: []ast.Stmt{&ast.BranchStmt{Tok: token.CONTINUE}}}})
	body = append(body, n.Body.List...)
	loop := &ast.RangeStmt{Key: ast.NewIdent("_"), Value: ast.NewIdent(k), Tok: token.DEFINE, X: call(vs("MapKeys"), ast.NewIdent(m)), Body: &ast.BlockStmt{List: body}}
	return &ast.BlockStmt{List: []ast.Stmt{
		&ast.AssignStmt{Lhs: []ast.Expr{ast.NewIdent(m)}, Tok: token.DEFINE, Rhs: []ast.Expr{n.X}},
		loop,
	}}
}

// rewriteSliceRange: for k, v := range s  ->  { __s := s; for k := range __s { v := *vsched.R(&__s[k]); ... } }
func (r *rewriter) rewriteSliceRange(n *ast.RangeStmt) ast.Stmt {
	sv := r.tmp("s")
	key := n.Key
	tok := n.Tok
	var body []ast.Stmt
	body = append(body, &ast.ExprStmt{X: call(vs("Tick"))})
	loopKey := key
	if isBlank(key) {
		loopKey = ast.NewIdent(r.tmp("i"))
	}
	keyTok := tok
	if isBlank(key) {
		keyTok = token.DEFINE
	}
	elem := &ast.StarExpr{X: call(vs("R"), &ast.UnaryExpr{Op: token.AND, X: &ast.IndexExpr{X: ast.NewIdent(sv), Index: loopKey}}, strLit("element "+r.pos(n)))}
	body = append(body, &ast.AssignStmt{Lhs: []ast.Expr{n.Value}, Tok: tok, Rhs: []ast.Expr{elem}})
	if tok == token.DEFINE {
		body = append(body, &ast.AssignStmt{Lhs: []ast.Expr{ast.NewIdent("_")}, Tok: token.ASSIGN, Rhs: []ast.Expr{n.Value}})
	}
	body = append(body, n.Body.List...)
	loop := &ast.RangeStmt{Key: loopKey, Tok: keyTok, X: ast.NewIdent(sv), Body: &ast.BlockStmt{List: body}}
	return &ast.BlockStmt{List: []ast.Stmt{
		&ast.AssignStmt{Lhs: []ast.Expr{ast.NewIdent(sv)}, Tok: token.DEFINE, Rhs: []ast.Expr{n.X}},
		loop,
	}}
}

func (r *rewriter) rewriteChanRange(n *ast.RangeStmt) ast.Stmt {
	ch := r.tmp("c")
	v := r.tmp("v")
	okv := r.tmp("ok")
	var body []ast.Stmt
	body = append(body, &ast.ExprStmt{X: call(vs("Tick"))})
	body = append(body, &ast.AssignStmt{Lhs: []ast.Expr{ast.NewIdent(v), ast.NewIdent(okv)}, Tok: token.DEFINE, Rhs: []ast.Expr{call(vs("Recv2"), ast.NewIdent(ch))}})
	body = append(body, &ast.IfStmt{Cond: &ast.UnaryExpr{Op: token.NOT, X: ast.NewIdent(okv)}, Body: &ast.BlockStmt{List: []ast.Stmt{&ast.BranchStmt{Tok: token.BREAK}}}})
	if !isBlank(n.Key) {
		tok := n.Tok
		body = append(body, &ast.AssignStmt{Lhs: []ast.Expr{n.Key}, Tok: tok, Rhs: []ast.Expr{ast.NewIdent(v)}})
		if tok == token.DEFINE {
			body = append(body, &ast.AssignStmt{Lhs: []ast.Expr{ast.NewIdent("_")}, Tok: token.ASSIGN, Rhs: []ast.Expr{n.Key}})
		}
	} else {
		body = append(body, &ast.AssignStmt{Lhs: []ast.Expr{ast.NewIdent("_")}, Tok: token.ASSIGN, Rhs: []ast.Expr{ast.NewIdent(v)}})
	}
	body = append(body, n.Body.List...)
	return &ast.BlockStmt{List: []ast.Stmt{
		&ast.AssignStmt{Lhs: []ast.Expr{ast.NewIdent(ch)}, Tok: token.DEFINE, Rhs: []ast.Expr{n.X}},
		&ast.ForStmt{Body: &ast.BlockStmt{List: body}},
	}}
}

func main() {
	repo := flag.String("repo", "/repo", "repository root")
	out := flag.String("out", "", "output directory (overlay.json and rewritten files)")
	hooks := flag.String("hooks", "/verif/hooks", "hook files")
	shim := flag.String("shim", "/verif/shim", "shim package sources")
	flag.Parse()
	if *out == "" {
		fatal("-out required")
	}
	os.MkdirAll(*out, 0o755)
	cfg := &packages.Config{
		Mode: packages.NeedName | packages.NeedFiles | packages.NeedSyntax | packages.NeedTypes | packages.NeedTypesInfo | packages.NeedImports | packages.NeedDeps,
		Dir:  *repo,
		Env:  append(os.Environ(), "GOFLAGS=-mod=mod", "GOPROXY=off", "GOSUMDB=off", "GOTOOLCHAIN=local"),
	}
	var pats []string
	for _, p := range targetPkgs {
		pats = append(pats, "./"+p)
	}
	pkgs, err := packages.Load(cfg, pats...)
	if err != nil {
		fatal("load: %v", err)
	}
	pkgSet := map[string]bool{}
	for _, p := range pkgs {
		pkgSet[p.PkgPath] = true
		if len(p.Errors) > 0 {
			for _, e := range p.Errors {
				fmt.Fprintln(os.Stderr, e)
			}
			fatal("package %s does not type-check", p.PkgPath)
		}
	}
	replace := map[string]string{}
	for _, p := range pkgs {
		for i, f := range p.Syntax {
			_ = i
			fname := p.Fset.Position(f.Package).Filename
			if strings.HasSuffix(fname, "_test.go") {
				continue
			}
			r := &rewriter{fset: p.Fset, info: p.TypesInfo, pkgSet: pkgSet, file: f, fname: fname}
			r.rewriteFile()
			if r.tryLock {
				// tell the scheduler that held locks are observable without blocking (see vsched.TryLockUsed)
				r.usedVS = true
				f.Decls = append(f.Decls, &ast.FuncDecl{Name: ast.NewIdent("init"), Type: &ast.FuncType{Params: &ast.FieldList{}},
					Body: &ast.BlockStmt{List: []ast.Stmt{&ast.AssignStmt{Lhs: []ast.Expr{vs("TryLockUsed")}, Tok: token.ASSIGN, Rhs: []ast.Expr{ast.NewIdent("true")}}}}})
			}
			// imports
			for _, imp := range f.Imports {
				path, _ := strconv.Unquote(imp.Path.Value)
				if strings.HasSuffix(p.PkgPath, "/pkg/entities") {
					break // entities only gets the access instrumentation; it starts no goroutines, timers or connections
				}
				if np, ok := importMap[path]; ok {
					if imp.Name == nil {
						imp.Name = ast.NewIdent(defaultName[path])
					}
					imp.Path.Value = strconv.Quote(np)
				}
			}
			if r.usedVS {
				astutil.AddNamedImport(p.Fset, f, "vsched", shimBase+"vsched")
			}
			f.Comments = nil
			var buf bytes.Buffer
			buf.WriteString("// Code generated by /verif/tools/verifgen from " + fname + "; DO NOT EDIT.\n")
			if err := format.Node(&buf, p.Fset, f); err != nil {
				fatal("print %s: %v", fname, err)
			}
			rel, _ := filepath.Rel(*repo, fname)
			dst := filepath.Join(*out, "gen", rel)
			os.MkdirAll(filepath.Dir(dst), 0o755)
			if err := os.WriteFile(dst, buf.Bytes(), 0o644); err != nil {
				fatal("%v", err)
			}
			replace[fname] = dst
		}
	}
	// hook files
	replace[filepath.Join(*repo, "pkg/collector/zz_verif_hooks.go")] = filepath.Join(*hooks, "collector_hooks.go")
	replace[filepath.Join(*repo, "pkg/collector/zz_verif_hooks_shim.go")] = filepath.Join(*hooks, "collector_hooks_shim.go")
	replace[filepath.Join(*repo, "pkg/exporter/zz_verif_hooks.go")] = filepath.Join(*hooks, "exporter_hooks.go")
	replace[filepath.Join(*repo, "pkg/intermediate/zz_verif_hooks.go")] = filepath.Join(*hooks, "intermediate_hooks.go")
	// virtual shim packages
	ents, err := os.ReadDir(*shim)
	if err != nil {
		fatal("%v", err)
	}
	for _, e := range ents {
		if !e.IsDir() {
			continue
		}
		files, _ := filepath.Glob(filepath.Join(*shim, e.Name(), "*.go"))
		for _, fpath := range files {
			replace[filepath.Join(*repo, "pkg/verifshim", e.Name(), filepath.Base(fpath))] = fpath
		}
	}
	b, _ := json.MarshalIndent(map[string]interface{}{"Replace": replace}, "", " ")
	if err := os.WriteFile(filepath.Join(*out, "overlay.json"), b, 0o644); err != nil {
		fatal("%v", err)
	}
}
