#!/bin/bash
# seed_round.sh <letter>: prepares one round of seeded changes - a scratch worktree of /repo HEAD per property
# under /tmp/mut<letter>-Cxx, an empty output directory, and a prompt file /tmp/mut<letter>_prompt_Cxx.txt built
# from tools/seed_prompt.txt, the property's text and the one-line ideas of the seeds already stored for it.
# A fresh sub-agent is then given only that prompt. Afterwards: tools/verify_seed.sh (ROUND=<letter>),
# tools/try_seed.sh, tools/seed_meta.py; remove the worktrees with git -C /repo worktree remove --force.
L=$1
cp /verif/tools/run_baseline.sh /tmp/run_baseline.sh
python3 - "$L" <<'PY'
import json,glob,sys
L=sys.argv[1]
props={json.loads(l)['id']:json.loads(l) for l in open('/verif/properties.jsonl')}
used={}
for d in sorted(glob.glob('/verif/seeded/*/meta.json')):
    m=json.load(open(d)); used.setdefault(m['breaks_property'],[]).append(m['needs_to_manifest'])
T=open('/verif/tools/seed_prompt.txt').read()
for i,p in props.items():
    u='\n'.join('  - '+x for x in used.get(i,[]))
    open(f'/tmp/mut{L}_prompt_{i}.txt','w').write(T.format(wt=f'/tmp/mut{L}-{i}',out=f'/tmp/mut{L}-{i}-out',title=p['title'],statement=p['statement'],quant=p['quantifier']['text'],used=u))
PY
for i in $(seq -w 1 20); do git -C /repo worktree add -q --detach /tmp/mut$L-C$i HEAD && mkdir -p /tmp/mut$L-C$i-out; done
git -C /repo worktree list | wc -l
