#!/bin/bash
# regress_seeds.sh: every stored seeded change must still be detected by the first check listed in its meta.json
cd /verif
for d in seeded/*/; do
  s=$(basename $d)
  [ -f $d/meta.json ] || { echo "$s: no meta.json"; continue; }
  c=$(python3 -c "import json;print(json.load(open('$d/meta.json'))['detected_by'][0])")
  if [ "$c" = none ]; then echo "SEED $s: recorded as not detected (see its meta.json and DESIGN.md section 10)"; continue; fi
  timeout 1500 tools/try_seed.sh $s $c quick 2>&1 | tail -1
  git -C /repo checkout -- . 2>/dev/null
done
