#!/bin/bash
# verify_seed.sh <prop> <n> <pkgdir> [demo-run-regex] : confirm a sub-agent's seeded change in a scratch worktree
# (applies at current /repo HEAD, baseline tests pass with it, demo fails with it and passes without), then
# store it under /verif/seeded/<prop>-<n>/.
set -u
P=$1; N=$2; PKG=$3; RUN=${4:-.}
SRC=/tmp/mut-$P-out
ID=$N
if [ "${ROUND:-}" = b ]; then SRC=/tmp/mutb-$P-out; ID=$((N+2)); fi
if [ "${ROUND:-}" = c ]; then SRC=/tmp/mutc-$P-out; ID=$((N+4)); fi
if [ "${ROUND:-}" = d ]; then SRC=/tmp/mutd-$P-out; ID=$((N+6)); fi
if [ "${ROUND:-}" = e ]; then SRC=/tmp/mute-$P-out; ID=$((N+8)); fi
if [ "${ROUND:-}" = f ]; then SRC=/tmp/mutf-$P-out; ID=$((N+10)); fi
if [ "${ROUND:-}" = g ]; then SRC=/tmp/mutg-$P-out; ID=$((N+12)); fi
if [ "${ROUND:-}" = h ]; then SRC=/tmp/muth-$P-out; ID=$((N+14)); fi
WT=/tmp/seedchk-$P-$ID
export GOFLAGS=-mod=mod GOPROXY=off GOSUMDB=off GOTOOLCHAIN=local
git -C /repo worktree remove --force $WT 2>/dev/null
git -C /repo worktree add -q --detach $WT HEAD || exit 2
res() { echo "RESULT $P-$ID: $*"; }
cd $WT
if ! git apply --check $SRC/patch$N.diff 2>/dev/null; then res "patch does not apply at HEAD"; git -C /repo worktree remove --force $WT; exit 1; fi
git apply $SRC/patch$N.diff
go build ./... || { res "does not compile"; git -C /repo worktree remove --force $WT; exit 1; }
bash /verif/tools/run_baseline.sh $WT > /tmp/seedchk-$P-$ID.base.log 2>&1; BASE=$?
cp $SRC/demo${N}_test.go $WT/$PKG/zz_demo${N}_test.go
go test -vet=off -count=1 -timeout 300s -run "$RUN" ./$PKG/ > /tmp/seedchk-$P-$ID.with.log 2>&1; WITH=$?
git apply -R $SRC/patch$N.diff
go test -vet=off -count=1 -timeout 300s -run "$RUN" ./$PKG/ > /tmp/seedchk-$P-$ID.without.log 2>&1; WITHOUT=$?
cd /verif
git -C /repo worktree remove --force $WT
res "baseline_with_patch_exit=$BASE demo_with_patch_exit=$WITH demo_without_patch_exit=$WITHOUT"
if [ $BASE -eq 0 ] && [ $WITH -ne 0 ] && [ $WITHOUT -eq 0 ]; then
  D=/verif/seeded/$P-$ID; mkdir -p $D
  cp $SRC/patch$N.diff $D/patch.diff; cp $SRC/demo${N}_test.go $D/demo_test.go; cp $SRC/notes$N.md $D/notes.md 2>/dev/null
  echo "$PKG" > $D/demo_pkg.txt
  res "CONFIRMED -> $D"
  exit 0
fi
exit 1
