#!/bin/bash
# run_c20.sh <workdir> quick|thorough | --replay <file>: builds the cmd/collector test binary with the
# injected driver, runs it in 16 shards, merges results, writes evidence, prints VIOLATION lines.
set -u
W=$1; shift
export GOFLAGS=-mod=mod GOPROXY=off GOSUMDB=off GOTOOLCHAIN=local
BIN=$W/c20.test.$$
( cd /repo && go test -c -vet=off -tags verif -overlay "$W/overlay.json" -o "$BIN" ./cmd/collector/ ) >"$W/build.log" 2>&1 || { cat "$W/build.log" >&2; echo "BUILD FAILED (infrastructure, not a verdict)" >&2; exit 2; }
trap 'rm -f "$BIN" "$W"/c20.out.*' EXIT
if [ "$1" = "--replay" ]; then
  R=$(python3 -c "import json,sys;r=json.load(open(sys.argv[1]));print(json.dumps({'Start':r['trace']['start'],'Hist':r['trace']['hist']}))" "$2")
  VERIF_C20=1 VERIF_C20_REPLAY="$R" "$BIN" -test.run '^TestVerifC20$' 2>&1 | grep -v '^PASS\|^ok' > "$W/c20.replay.out"
  cat "$W/c20.replay.out"
  if grep -q '^C20VIOLATION' "$W/c20.replay.out"; then echo "VIOLATION property=C20 replay=$2"; exit 1; fi
  exit 0
fi
TIER=$1
N=$(nproc)
START=$(date +%s.%N)
for i in $(seq 0 $((N-1))); do
  VERIF_C20=1 VERIF_TIER=$TIER VERIF_SHARD=$i VERIF_NSHARDS=$N "$BIN" -test.run '^TestVerifC20$' -test.timeout 3h > "$W/c20.out.$i" 2>&1 &
done
wait
python3 /verif/tools/c20_merge.py "$W" "$TIER" "$N" "$START"
