#!/usr/bin/env python3
# Generates /verif/MANIFEST.json from the table below (single source of truth for the interface file).
import json
props=[json.loads(l) for l in open('/verif/properties.jsonl')]
E1="xplore (E1): explicit-state search over operation histories / input spaces on the real code, in lock-step with a Go reference model"
E2="vsched (E2): controlled cooperative scheduler + DFS over all interleavings up to a preemption bound, on the mechanically rewritten packages"
C={}
C['C03']=dict(engine="xplore", design="DESIGN.md §6 C03",
  technique="bounded-exhaustive input enumeration (deviation-bounded mutants of a valid corpus x template states x modes) on the real decoder vs. an independent reference parser",
  text="Every byte string within 0/1 (thorough: 2) deviations of a valid message, every byte string of length <=2 and a grammar of header prefixes x short bodies is decoded by the real collector from each of 9 template states (incl. degenerate ones) in all 3 decoding modes; each outcome is compared with an independent RFC 7011 parser; panics, non-termination and memory blow-up are caught by recover/watchdog in worker processes. The space is enumerated completely, not sampled.",
  note="Trusted: the reference parser (harness/refcodec, harness/colmodel); known elements are taken at the registry width; inputs further than the stated deviations from a valid message are not covered; hang = one decode > 10 s.")
C['C04']=dict(engine="xplore", design="DESIGN.md §6 C04",
  technique="explicit-state model checking of message histories on the real collector: all histories to depth 3/4 plus BFS to closure of the template-table state graph, against a tmplstore reference model",
  text="All histories over a 40-message alphabet (2 domains x 2 ids x {3 templates, 4 kinds of bad template, 3 data bodies}) up to depth 3 (thorough 4) run on the real collector in lock-step with the reference store; then a BFS de-duplicated on the collector's private template table closes the reachable state graph (256/625 states), so every transition out of every reachable table is checked: the property holds for histories of any length over this alphabet.",
  note="Trusted: reference model, the snapshot hook (read-only). Alphabet-bounded: 2 domains, 2 ids, 3 template shapes.")

C['C05']=dict(engine="xplore", design="DESIGN.md §6 C05",
  technique="bounded-exhaustive enumeration of record/export/reset histories on the real AggregationProcess under a virtual clock, compared field-by-field with an arithmetic reference model after every operation",
  text="All histories up to depth 4 (thorough 5, plus a de-duplicated BFS) over 27 operations - records for an inter-node pair and two single-stream flows with two end-time steps and three counter increments (incl. 2^40), active export with reset, reset via ForAllRecordsDo, inactive expiry - run on the real code (rewritten only so that time.Now is virtual); after every operation every statistic, per-node, end-time and throughput field of every held record and every exported record equals the model.",
  note="Trusted: aggmodel equations (DESIGN Appendix B.1), verifgen rewrite (time->vtime only matters here). Inputs respect the contract in the property's quantifier; cross-node end-time ties are excluded; where the statement leaves the common total ambiguous every reading is accepted.")
C['C06']=dict(engine="xplore", design="DESIGN.md §6 C06",
  technique="explicit-state model checking of {record, advance clock, expiry scan with failing callbacks} histories on the real AggregationProcess under an exact virtual clock: all histories to a depth bound plus BFS to closure over the heap/map snapshot",
  text="Every history up to depth 5 (thorough 7) over 2-3 flow keys, clock steps 1/2/4/6 against timeouts 4/6 (so deadline == now is reached) and scans whose callback fails on every subset of keys; after every operation the map/heap snapshot must be consistent (no held flow without a queue entry, no entry without a flow, indices, heap order), callbacks must fire for exactly the due flows in deadline order, and the advertised next expiry must match. A BFS de-duplicated on the heap layout with relative deadlines closes the state graph for 2 keys (all histories of any length over the alphabet).",
  note="Trusted: expiry model (DESIGN Appendix B.2), snapshot hook. A deadline exactly equal to the scan time may fire or not. 3-key graph explored to a depth bound only.")
C['C07']=dict(engine="xplore", design="DESIGN.md §6 C07",
  technique="explicit-state model checking of arrival-order/action/scan histories on the real AggregationProcess under a virtual clock, against a correlation reference model; BFS to closure",
  text="Every history up to depth 4 (thorough 5) over records of one flow key with every flow type, 6 (thorough: all 16) egress/ingress action pairs and either reporting node, clock steps and scans, for MaxRetries 1 and 2: ready/filled flags, retry counter, deadlines and every correlated field of the merged record are compared with the model after each step, and no callback may ever see an unready record. BFS on the snapshot closes the graph (269 states for MaxRetries=1).",
  note="Trusted: correlation model (DESIGN Appendix B.3). A record that shows the flow needs no correlation makes a held flow ready (this is the reading under which the repaired defect was a defect).")

C['C08']=dict(engine="xplore", design="DESIGN.md §6 C08",
  technique="bounded-exhaustive enumeration of successful send histories on the real ExportingProcess (in-memory connection, virtual clock), every transmitted message parsed by an independent decoder and compared with a session model",
  text="Every history of successful template/data sends (record counts 1,2,3 and the largest that fits) and clock steps up to depth 5 (thorough 7), from start counters 0, 2^31, 2^32-3, 2^32-1 and three virtual clocks, over tcp and udp: sequence number (mod 2^32), domain, export second, exactly one write per send and the exact byte count are checked on every message.",
  note="Trusted: refcodec, session model. Background goroutines are parked (their interaction is C14). Export time is compared modulo 2^32.")
C['C09']=dict(engine="xplore", design="DESIGN.md §6 C09",
  technique="bounded-exhaustive enumeration of send histories mixing valid sends with every fault kind and every message size around the limit, on the real ExportingProcess with a fault-injecting in-memory connection",
  text="Every history up to depth 3 (thorough 4) over valid sends and faults (unknown template id, field count off by one in first/later records, undefined set type, failing connection write, ill-typed address/MAC values), and every message size 65519..65540: an error must leave the connection log untouched, a success must put exactly the supplied values on the wire, and a data set may only follow a template that actually reached the wire.",
  note="Trusted: refcodec. IPv4-in-ipv6Address (encodable as v4-mapped) is left open by the statement and not in the alphabet.")
C['C10']=dict(engine="vsched", design="DESIGN.md §6 C10",
  technique="history enumeration x exhaustive schedule exploration (controlled scheduler, virtual timers) of the real UDP collector; invariant evaluated at every scheduling point",
  text="For every history (depth 4, thorough 5) over template / replacement / bad template / data / clock advances, all placements of timer firings and expiry-callback executions relative to the driver are explored (3 preemptions quick, unbounded thorough): data is accepted for the whole TTL after the last refresh, rejected when no template is in force, stored <=> alive at quiescence, and whenever the collector's lock is free every stored template has an armed timer or a callback in flight and no removed template keeps an armed timer.",
  note="Trusted: vsched timer model (documented Stop/Reset semantics, callback in its own thread), verifgen rewrite. 2 ids x 1-2 domains.")
C['C13']=dict(engine="vsched", design="DESIGN.md §6 C13",
  technique="exhaustive schedule exploration (controlled scheduler) of 3-4 thread scenarios on the real AggregationProcess + brute-force linearizability check against the implementation run sequentially + in-model happens-before race detection",
  text="All interleavings (unbounded for the direct-call scenarios; preemption-bounded for the built-in worker pool) of concurrent ingestion, expiry scans and queries: per-operation results and the final map/heap snapshot must be explained by a sequential order consistent with real time; the final heap/map structure must be intact; every instrumented field access is checked for data races in every explored schedule.",
  note="Trusted: vsched lock/channel model, verifgen field instrumentation. N<=4 threads (the statement's N up to 16 is not enumerable).")
C['C14']=dict(engine="vsched", design="DESIGN.md §6 C14",
  technique="exhaustive schedule exploration up to a preemption bound of application / clock / peer / Close threads against the exporter's own background goroutines on an in-memory connection; log oracle + deadlock, leak, crash and in-model data-race detection",
  text="Five scenarios (UDP refresh vs application, two refreshes, concurrent Close calls, TCP peer close noticed by the connection check, checker-initiated close racing Close) explored to 2 (thorough 3) preemptions: every write is one whole well-formed message, refreshes retransmit all templates sent before the tick, sends fail after a noticed peer close, Close always returns, leaves no thread and no later write, and no field access races.",
  note="Trusted: vsched/vnet models. Background goroutines are allowed to start before the scenario begins (a start delayed by a whole refresh interval is not considered). A Close overlapping another Close still in progress may return before the connection is closed (left open by the statement).")

C['C11']=dict(engine="vsched", design="DESIGN.md §6 C11",
  technique="exhaustive enumeration of segmentations (every 1-, 2-, (3-)cut, every prefix close) of 17 byte streams, each executed on the real collector over the in-memory network under the controlled scheduler, with both read-delivery modes; a subset additionally schedule-explored",
  text="For two valid streams and fifteen streams with one undecodable message (5 kinds x 3 positions): no cut, every single cut, every pair of cuts, a peer close after every prefix, each with reads that return one segment and reads that coalesce (about 100k cases quick; thorough adds all pairs for every stream, all triples on a two-message stream and all 2^19 segmentations of the first 20 bytes): the collector must deliver exactly the decodable prefix, decoded correctly, close the connection at the first undecodable message, and leave a second connection unaffected.",
  note="Trusted: vnet read model, refcodec/colmodel. Streams of up to 4 short messages. Schedules: the default one per case plus 1-delay exploration on a subset (full schedule exploration of the collector is C12).")
C['C12']=dict(engine="vsched", design="DESIGN.md §6 C12",
  technique="delay-bounded exhaustive schedule exploration (every schedule with at most 3, thorough 4, departures from the deterministic default scheduler) of six client/Stop scenarios on the real collector over the in-memory network; deadlock, leak, WaitGroup-misuse, crash and in-model data-race detection",
  text="Two and three TCP clients, a client dying mid-message, two UDP remotes, each also against a concurrent Stop: per connection the deliveries equal (with Stop: are a prefix of) what was sent, in order, decoded correctly; the connection count returns to zero; Stop returns in every schedule; the instant it returns no goroutine started by the collector is alive, afterwards the socket is closed and nothing more is delivered; no data race in any explored schedule.",
  note="Trusted: vsched/vnet models. About 10 threads per scenario make preemption bounding infeasible, so the bound counts delays (Emmi-Qadeer-Rakamaric): a polynomial, still exhaustive-within-bound space. TLS not under the scheduler. The scenario begins once Start() has finished initialising. <= 3 clients.")

C['C15']=dict(engine="xplore", design="DESIGN.md §6 C15",
  technique="exhaustive value enumeration (all 8/16-bit values, boundary families, every float exponent, every string length in the tier's set) through the real encoder and decoder against an RFC 7011 reference encoding",
  text="Every value of the 8- and 16-bit types, ~400 boundary values per wide integer/date type, every float exponent x 6 mantissas x sign, address patterns, fixed octet arrays of 7 lengths and every string/octet-array length 0..600, every 251st and 64900..65535 (thorough: every length 0..65535) is encoded between sentinel fields through both record constructors, compared byte-for-byte with the reference encoding, and decoded back (field-length reader + element decoder directly, and through a whole message when it fits) to the same bits; value-less (template) element construction is exercised for every type.",
  note="Trusted: the reference encodings written from the RFC in the harness. Wide numeric types are covered on boundary families, not on all 2^32/2^64 values.")
C['C16']=dict(engine="xplore", design="DESIGN.md §6 C16",
  technique="bounded-exhaustive enumeration of builder operation histories on a real encoding set against reference serialisations, all three add paths and post-reset behaviour compared with the same reference bytes",
  text="Every well-formed history up to depth 5 (thorough 6) over 23 operations (4 prepares, 4 add variants x 4 element lists incl. one element of every encodable type and a 300-byte string, UpdateLenInHeader, ResetSet, an add that must be refused): after each step set length = 4 + sum of record lengths = bytes serialised by CreateIPFIXMsg, every record buffer equals its reported length and the refcodec encoding, header length correct after UpdateLenInHeader.",
  note="Trusted: refcodec. Encoding sets only (a decoding set is never serialised).")
C['C17']=dict(engine="xplore", design="DESIGN.md §6 C17",
  technique="exhaustive enumeration of templates (arity 1..4, thorough 5, over 7 known/unknown element kinds at every position) x value shapes x 3 decoding modes on the real collector against the refcodec/tmplstore reference",
  text="All 2800 (thorough 19607) templates x variable-length rotations over {0,1,254,255,300} x 1-2 records x {strict, keep, drop}, each also after an earlier valid definition of the same id: strict rejects the template, forgets the older one and rejects the data; keep delivers every unknown field as an octet array with exactly the received bytes; drop omits exactly the unknown fields; known fields always decode to their reference value.",
  note="Trusted: refcodec/colmodel. Unknown kinds: IANA and enterprise, fixed and variable, unknown id in a known enterprise.")

C['C01']=dict(engine="xplore", design="DESIGN.md §6 C01",
  technique="bounded-exhaustive enumeration of templates x boundary value vectors x record counts, each sent by the real exporter to the real collector over real loopback tcp/udp/tls/dtls (IPv4 and IPv6) and compared field by field",
  text="Every template of arity 1..2 (thorough 3, plus every registry element) over a 28-element alphabet covering all 18 supported types in all registries, with boundary-value cross products, message-filling variable-length values and record counts fit-1/fit, on all 8 transport x address-family configurations, followed by an exporter restart that reuses template ids: what arrives on GetMsgChan() equals what was handed to SendSet (domain, template fields with id/enterprise/type/length/name in order, record count, every value on its raw bits).",
  note="Trusted: refcodec (for sizes), real kernel sockets and crypto (schedules are the OS's, only inputs/configurations are enumerated). DTLS regular cases stay within 8155 bytes per message; larger ones are a recorded known finding. Arity > 3 mixes are not enumerated.")
C['C02']=dict(engine="xplore", design="DESIGN.md §6 C02",
  technique="the C01 input space sent by the real exporter over real loopback tcp and udp sockets to a raw peer socket; every message read from the wire judged by an independent RFC 7011 parser",
  text="Same templates, values and record counts as C01: every byte string read from the peer socket must be one well-formed message (version 10, header length = bytes received = SendSet's return, one set covering the rest, set id 2 / template id, template record with enterprise bit and PEN exactly for enterprise elements, fields at template width or correctly length-prefixed) whose parsed values equal the values given; oversized sets must be refused with nothing on the wire.",
  note="Trusted: refcodec shares no code with the library. Real sockets; inputs enumerated.")
C['C18']=dict(engine="xplore", design="DESIGN.md §6 C18",
  technique="exhaustive enumeration of the TLS/DTLS acceptance matrix (349 cells: certificate kinds x ServerName x client certificate x client CA x peer max version x role, plaintext peers, trust sequences), each a real session on loopback with certificates minted in process, against a policy predicate",
  text="Library exporter vs hand-made TLS server, hand-made TLS client vs library collector, library vs library over TLS and DTLS, plaintext peers against encrypted endpoints, and two-step sequences against one long-lived server: messages flow exactly when the certificate chains to the configured CA, is inside its validity period, matches the expected name/address, the version is at least 1.2 and (when a client CA is configured) the client certificate comes from it; nothing is ever accepted from or sent over a plaintext session.",
  note="Trusted: Go crypto/tls and pion/dtls as the peers' implementations; the policy predicate. DTLS without a configured ServerName checks the chain only (two cells left open). A refusal is observed as 'nothing delivered within 400 ms'.")
checks=[]
for pid in sorted(C):
    c=C[pid]
    checks.append({"property_id":pid,"quick_cmd":f"./check {pid} quick","thorough_cmd":f"./check {pid} thorough",
      "evidence_file":f"/verif/evidence/{pid}.json","replay_cmd_template":f"./check {pid} --replay {{path}}","engine":c['engine'],
      "level_claimed":{"category":"model_checking","text":c['text'],"design_ref":c['design']},"level_note":c['note'],"technique":c['technique']})
na=[{"property_id":p["id"],"reason":"check not built yet (implementation in progress; planned per DESIGN.md §6, no technical obstacle known)"} for p in props if p["id"] not in C]
m={"version":1,"setup_cmd":"./setup.sh",
 "hooks":{"guard":"verif","enable":"go build -tags verif -overlay /verif/.work/<flavour>/overlay.json: hook files (/verif/hooks/*.go, //go:build verif) and, for the shim flavour, mechanically rewritten copies of pkg/{collector,exporter,intermediate} are injected with go's -overlay; /repo itself carries no hook code",
  "baseline_off_cmd":"cd /repo && go test -vet=off -count=1 -timeout 25m ./...","source_commits":[],"add_only":True},
 "engines":[{"name":"xplore","path":"/verif/harness/xplore","serves_properties":sorted(k for k in C if C[k]['engine']=='xplore'),"kind_free_text":E1},
            {"name":"vsched","path":"/verif/shim/vsched","serves_properties":sorted(k for k in C if C[k]['engine']=='vsched'),"kind_free_text":E2}],
 "checks":checks,"not_applicable":na,
 "notes":"All checks are model checking in the sense of exhaustive enumeration of a stated bounded space on the real implementation (see DESIGN.md). exit 2 from a check = infrastructure error, not a verdict. tools/run_baseline.sh runs exactly the stable baseline tests in about 20 s."}
json.dump(m,open('/verif/MANIFEST.json','w'),indent=1)
print("checks:",[c['property_id'] for c in checks])
