#!/usr/bin/env python3
# Generates /verif/MANIFEST.json from the table below (single source of truth for the interface file).
import json
props=[json.loads(l) for l in open('/verif/properties.jsonl')]
E1="xplore (E1): explicit-state search over operation histories / input spaces on the real code, in lock-step with a Go reference model"
E2="vsched (E2): controlled cooperative scheduler + DFS over all interleavings up to a preemption bound, on the mechanically rewritten packages"
C={}
C['C03']=dict(engine="xplore", design="DESIGN.md §6 C03",
  technique="bounded-exhaustive input enumeration (deviation-bounded mutants of a valid corpus x template states x modes) on the real decoder vs. an independent reference parser",
  text="Every byte string within 0/1 (thorough: 2) deviations of a valid message, every byte string of length <=2 and a grammar of header prefixes x short bodies is decoded by the real collector from each of 9 template states (incl. degenerate ones) in all 3 decoding modes; each outcome is compared with an independent RFC 7011 parser; panics, non-termination and memory blow-up are caught by recover/watchdog in worker processes. The space is enumerated completely, not sampled.",
  note="Trusted: the reference parser (harness/refcodec, harness/colmodel); known elements are taken at the registry width; inputs further than the stated deviations from a valid message are not covered; hang = one decode > 10 s.")
C['C04']=dict(engine="xplore", design="DESIGN.md §6 C04",
  technique="explicit-state model checking of message histories on the real collector: all histories to depth 3/4 plus BFS to closure of the template-table state graph, against a tmplstore reference model",
  text="All histories over a 40-message alphabet (2 domains x 2 ids x {3 templates, 4 kinds of bad template, 3 data bodies}) up to depth 3 (thorough 4) run on the real collector in lock-step with the reference store; then a BFS de-duplicated on the collector's private template table closes the reachable state graph (256/625 states), so every transition out of every reachable table is checked: the property holds for histories of any length over this alphabet.",
  note="Trusted: reference model, the snapshot hook (read-only). Alphabet-bounded: 2 domains, 2 ids, 3 template shapes.")
checks=[]
for pid in sorted(C):
    c=C[pid]
    checks.append({"property_id":pid,"quick_cmd":f"./check {pid} quick","thorough_cmd":f"./check {pid} thorough",
      "evidence_file":f"/verif/evidence/{pid}.json","replay_cmd_template":f"./check {pid} --replay {{path}}","engine":c['engine'],
      "level_claimed":{"category":"model_checking","text":c['text'],"design_ref":c['design']},"level_note":c['note'],"technique":c['technique']})
na=[{"property_id":p["id"],"reason":"check not built yet (implementation in progress; planned per DESIGN.md §6, no technical obstacle known)"} for p in props if p["id"] not in C]
m={"version":1,"setup_cmd":"./setup.sh",
 "hooks":{"guard":"verif","enable":"go build -tags verif -overlay /verif/.work/<flavour>/overlay.json: hook files (/verif/hooks/*.go, //go:build verif) and, for the shim flavour, mechanically rewritten copies of pkg/{collector,exporter,intermediate} are injected with go's -overlay; /repo itself carries no hook code",
  "baseline_off_cmd":"cd /repo && go test -vet=off -count=1 -timeout 25m ./...","source_commits":[],"add_only":True},
 "engines":[{"name":"xplore","path":"/verif/harness/xplore","serves_properties":sorted(k for k in C if C[k]['engine']=='xplore'),"kind_free_text":E1},
            {"name":"vsched","path":"/verif/shim/vsched","serves_properties":sorted(k for k in C if C[k]['engine']=='vsched'),"kind_free_text":E2}],
 "checks":checks,"not_applicable":na,
 "notes":"All checks are model checking in the sense of exhaustive enumeration of a stated bounded space on the real implementation (see DESIGN.md). exit 2 from a check = infrastructure error, not a verdict. tools/run_baseline.sh runs exactly the stable baseline tests in about 20 s."}
json.dump(m,open('/verif/MANIFEST.json','w'),indent=1)
print("checks:",[c['property_id'] for c in checks])
