#!/bin/bash
# setup_cmd: builds the tools and warms the Go build cache. Offline; everything comes from disk.
set -u
cd /verif
export GOFLAGS=-mod=mod GOPROXY=off GOSUMDB=off GOTOOLCHAIN=local
mkdir -p .work/bin evidence replays
if [ -d tools/verifgen ]; then
  ( cd tools/verifgen && go build -o /verif/.work/bin/verifgen . ) || { echo "verifgen build failed" >&2; exit 1; }
fi
cp /repo/go.sum harness/go.sum 2>/dev/null
for fl in plain shim; do
  [ -d harness/$fl ] || continue
  ./tools/mkoverlay.sh $fl /verif/.work/$fl || exit 1
  ( cd harness && go build -tags verif -overlay /verif/.work/$fl/overlay.json -o /verif/.work/bin/$fl.warm ./$fl ) || { echo "warm build of $fl failed" >&2; exit 1; }
  rm -f /verif/.work/bin/$fl.warm
done
echo setup ok
